package main

// Contracts: Gobra-style //@ blocks in /repo/verif_contracts.go (build tag verif), keyed by function.

import (
	"fmt"
	"go/ast"
	"go/parser"
	"go/token"
	"go/types"
	"regexp"
	"sort"
	"strings"

	"golang.org/x/tools/go/ast/astutil"
	"golang.org/x/tools/go/ssa"
)

type Contract struct {
	Key         string
	Header      string
	Fn          *ssa.Function
	ParamNames  []string // receiver first
	ResultNames []string
	Requires    []*Clause
	Ensures     []*Clause
	Loops       map[int]*LoopContract
	SafetyTags  []string
	Recv        string   // "zero" (default for pointer receivers of Unmarshal-like functions) or "any"
	Modifies    []string // parameter names whose pointee may be modified
	ModifiesIdx []int
	NoCap       bool
	Keeps       []string // "param.field": the slice field keeps its backing array (it is only re-sliced)
	Mutates     []string // "param.field": objects reachable through that slice field of a by-value parameter may be modified (documented exception to the frame)
	Writes      []string // "param.field": the elements of that slice field may be overwritten by the callee
	Bounded     string   // generator name: the (trusted) contract is validated by execution on generated inputs
	BoundedTags []string
	Inline      bool
	Trusted     bool
	Broken      string // the contract does not resolve against the current source (reported where it matters)
	Lemma       bool
	MathInt     bool // int arithmetic treated as mathematical (no int-range obligations): listed as an assumption
	Slow        bool // verified in the thorough tier only (obligations close to the quick time limit)
	Monotone    bool // rec function whose value never decreases with its bound argument (proved: step >= 0)
	Rec         bool // recursive ghost function: uninterpreted symbol + one unfolding per application
	FreshRes    bool
	AllocBound  *Clause
	Unroll      map[int]int
	Line        int
	rawLoops    map[int][]rawClause
	raw         []rawClause
	renames     map[string]string
	floatOwner  *ssa.Function        // while binding a floating loop: the helper that contains the loop
	floatVars   map[string]floatVar // its locals named by the clauses but not declared in the function's own scope
}

type floatVar struct {
	typ  string
	idx  int
	name string // the helper's local it stands for (same as the clause's name unless recovered by type)
}

type LoopContract struct {
	Ord        int
	Invariants []*Clause
	Decreases  *Clause
	Keeps      []*Clause // slice-valued locals/fields that stay re-slices of the array they held at loop entry
	Exits      []*Clause // must hold whenever the loop is left through its condition (normal exit)
	Cases      *Clause // case split on a local variable's value at the loop head: cases <local> <lo> <hi>
	CaseLo     int
	CaseHi     int
	header     *ssa.BasicBlock
	body       map[*ssa.BasicBlock]bool
	pos        token.Pos
	floating   bool          // the loop now lives in a helper that the function calls (extracted loop)
	owner      *ssa.Function // function that contains the loop (== ct.Fn unless floating)
}

type Clause struct {
	Kind    string // requires ensures invariant decreases allocates
	Label   string
	Tags    []string
	Text    string
	Binders []string
	BTypes  []string // Go type of each binder (default int)
	Exists  bool // binders are existential
	Expr    ast.Expr
	Info    *types.Info
	Assumed bool      // `assumes`: a well-formedness assumption on the inputs (not an obligation at call sites; listed in the evidence)
	Except  []*Clause // known-finding predicates: the clause is proved under !except
	nRes    int       // placeholders 0..nRes-1 are the results, then the binders
	FloatNames map[int]string // placeholders >= 1000: locals of the helper that contains an extracted loop, by name
}

type rawClause struct {
	kind, tags, text string
	line             int
}

// visible: every clause is part of the contract in every projection; the tags decide under which property a
// clause is *proved* (see counts in check.go). A property's check therefore assumes the clauses carried by
// other properties, which are discharged by those properties' own checks.
func (c *Clause) visible(prop string) bool { return true }

func hasTag(tags []string, p string) bool {
	for _, t := range tags {
		if t == p {
			return true
		}
	}
	return false
}

var clauseHead = regexp.MustCompile(`^(func|requires|assumes|ensures|invariant|decreases|cases|exit|loop|safety|modifies|recv|nocap|inline|trusted|lemma|fresh|allocates|unroll|rec|mathint|slow|keeps|writes|bounded|mutates)(\[[A-Za-z0-9,* ]*\])?(\s+|$)`)

// parseContractFile extracts the //@ blocks of one file.
func parseContractComments(fset *token.FileSet, f *ast.File) ([]*Contract, error) {
	var cts []*Contract
	var cur *Contract
	curLoop := 0
	var last *rawClause
	for _, cg := range f.Comments {
		for _, c := range cg.List {
			if !strings.HasPrefix(c.Text, "//@") {
				continue
			}
			line := fset.Position(c.Pos()).Line
			txt := strings.TrimSpace(strings.TrimPrefix(c.Text, "//@"))
			if txt == "" || strings.HasPrefix(txt, "//") {
				continue
			}
			if i := strings.Index(txt, " // "); i >= 0 {
				txt = strings.TrimSpace(txt[:i])
			}
			m := clauseHead.FindStringSubmatch(txt)
			if m == nil {
				if last == nil {
					return nil, fmt.Errorf("line %d: continuation without clause: %s", line, txt)
				}
				last.text += " " + txt
				continue
			}
			kw, tags, rest := m[1], strings.Trim(m[2], "[]"), strings.TrimSpace(txt[len(m[0]):])
			if kw == "func" {
				cur = &Contract{Header: "func " + rest, Loops: map[int]*LoopContract{}, rawLoops: map[int][]rawClause{}, Unroll: map[int]int{}, Line: line}
				cts = append(cts, cur)
				curLoop = 0
				last = nil
				continue
			}
			if cur == nil {
				return nil, fmt.Errorf("line %d: clause outside a func block", line)
			}
			switch kw {
			case "loop":
				var n int
				if _, err := fmt.Sscanf(rest, "%d", &n); err != nil {
					return nil, fmt.Errorf("line %d: bad loop ordinal %q", line, rest)
				}
				curLoop = n
				last = nil
			case "keeps":
				if curLoop != 0 {
					cur.rawLoops[curLoop] = append(cur.rawLoops[curLoop], rawClause{kw, tags, rest, line})
					last = nil
					break
				}
				for _, x := range strings.Split(rest, ",") {
					if x = strings.TrimSpace(x); x != "" {
						cur.Keeps = append(cur.Keeps, x)
					}
				}
			case "invariant", "decreases", "cases", "exit":
				if curLoop == 0 {
					return nil, fmt.Errorf("line %d: %s outside a loop", line, kw)
				}
				cur.rawLoops[curLoop] = append(cur.rawLoops[curLoop], rawClause{kw, tags, rest, line})
				last = &cur.rawLoops[curLoop][len(cur.rawLoops[curLoop])-1]
			case "requires", "assumes", "ensures", "allocates":
				cur.raw = append(cur.raw, rawClause{kw, tags, rest, line})
				last = &cur.raw[len(cur.raw)-1]
			case "safety":
				cur.SafetyTags = splitTags(tags)
				last = nil
			case "modifies":
				for _, x := range strings.Split(rest, ",") {
					x = strings.TrimSpace(x)
					if x == "" || x == "nothing" {
						continue
					}
					cur.Modifies = append(cur.Modifies, strings.TrimPrefix(x, "*"))
				}
				last = nil
			case "recv":
				cur.Recv = rest
				last = nil
			case "nocap":
				cur.NoCap = true
			case "inline":
				cur.Inline = true
			case "trusted":
				cur.Trusted = true
			case "bounded":
				cur.Bounded = strings.TrimSpace(rest)
				cur.BoundedTags = splitTags(tags)
			case "mutates":
				for _, x := range strings.Split(rest, ",") {
					if x = strings.TrimSpace(x); x != "" {
						cur.Mutates = append(cur.Mutates, x)
					}
				}
			case "writes":
				for _, x := range strings.Split(rest, ",") {
					if x = strings.TrimSpace(x); x != "" {
						cur.Writes = append(cur.Writes, x)
					}
				}
			case "lemma":
				cur.Lemma = true
			case "rec":
				cur.Rec = true
				if strings.Contains(rest, "monotone") {
					cur.Monotone = true
				}
			case "mathint":
				cur.MathInt = true
			case "slow":
				cur.Slow = true
			case "fresh":
				cur.FreshRes = true
			case "unroll":
				var ord, n int
				fmt.Sscanf(rest, "%d %d", &ord, &n)
				cur.Unroll[ord] = n
			}
		}
	}
	return cts, nil
}

func splitTags(s string) []string {
	var out []string
	for _, t := range strings.Split(s, ",") {
		t = strings.TrimSpace(t)
		if t != "" {
			out = append(out, t)
		}
	}
	return out
}

// resolveHeader parses the func header and finds the SSA function it denotes.
func (e *Engine) resolveHeader(ct *Contract) error {
	src := "package p\n" + ct.Header + " {}"
	f, err := parser.ParseFile(token.NewFileSet(), "", src, 0)
	if err != nil {
		return fmt.Errorf("contract header %q: %v", ct.Header, err)
	}
	fd := f.Decls[0].(*ast.FuncDecl)
	key := fd.Name.Name
	if fd.Recv != nil && len(fd.Recv.List) == 1 {
		rt := fd.Recv.List[0].Type
		ptr := false
		if se, ok := rt.(*ast.StarExpr); ok {
			ptr = true
			rt = se.X
		}
		tn := rt.(*ast.Ident).Name
		if ptr {
			key = "(*" + tn + ")." + fd.Name.Name
		} else {
			key = "(" + tn + ")." + fd.Name.Name
		}
		for _, n := range fd.Recv.List[0].Names {
			ct.ParamNames = append(ct.ParamNames, n.Name)
		}
		if len(fd.Recv.List[0].Names) == 0 {
			ct.ParamNames = append(ct.ParamNames, "_")
		}
	}
	for _, p := range fd.Type.Params.List {
		if len(p.Names) == 0 {
			ct.ParamNames = append(ct.ParamNames, "_")
		}
		for _, n := range p.Names {
			ct.ParamNames = append(ct.ParamNames, n.Name)
		}
	}
	if fd.Type.Results != nil {
		for i, r := range fd.Type.Results.List {
			if len(r.Names) == 0 {
				if i == 0 {
					ct.ResultNames = append(ct.ResultNames, "result")
				} else {
					ct.ResultNames = append(ct.ResultNames, fmt.Sprintf("result%d", i))
				}
			}
			for _, n := range r.Names {
				ct.ResultNames = append(ct.ResultNames, n.Name)
			}
		}
	}
	ct.Key = key
	fn := e.fns[key]
	if fn == nil {
		// renamed function: exactly one function of the package without a contract of its own has the same
		// receiver, parameter and result types (sound: every obligation still has to be proved on its body)
		var want []string
		if fd.Recv != nil && len(fd.Recv.List) == 1 {
			want = append(want, "recv "+types.ExprString(fd.Recv.List[0].Type))
		}
		for _, p := range fd.Type.Params.List {
			for i := 0; i < max(1, len(p.Names)); i++ {
				want = append(want, "p "+types.ExprString(p.Type))
			}
		}
		if fd.Type.Results != nil {
			for _, r := range fd.Type.Results.List {
				for i := 0; i < max(1, len(r.Names)); i++ {
					want = append(want, "r "+types.ExprString(r.Type))
				}
			}
		}
		qual := types.RelativeTo(e.pkg.Types)
		var cands []*ssa.Function
		for k, f := range e.fns {
			if e.headerKeys[k] || f.Synthetic != "" || f.Parent() != nil {
				continue
			}
			var have []string
			sig := f.Signature
			if sig.Recv() != nil {
				have = append(have, "recv "+types.TypeString(sig.Recv().Type(), qual))
			}
			for i := 0; i < sig.Params().Len(); i++ {
				have = append(have, "p "+types.TypeString(sig.Params().At(i).Type(), qual))
			}
			for i := 0; i < sig.Results().Len(); i++ {
				have = append(have, "r "+types.TypeString(sig.Results().At(i).Type(), qual))
			}
			if strings.Join(have, ";") == strings.Join(want, ";") {
				cands = append(cands, f)
			}
		}
		if len(cands) != 1 {
			return fmt.Errorf("contract for unknown function %s", key)
		}
		fn = cands[0]
		e.renameNotes = append(e.renameNotes, fmt.Sprintf("contract of %s applied to %s (the only function without a contract that has the same signature)", key, fnKey(fn)))
		key = fnKey(fn)
		ct.Key = key
	}
	ct.Fn = fn
	if len(ct.ParamNames) != len(fn.Params) {
		return fmt.Errorf("contract %s: header has %d parameters, function has %d", key, len(ct.ParamNames), len(fn.Params))
	}
	if len(ct.ResultNames) != fn.Signature.Results().Len() {
		return fmt.Errorf("contract %s: header has %d results, function has %d", key, len(ct.ResultNames), fn.Signature.Results().Len())
	}
	// positional alpha-renaming: header names -> names in the source
	ct.renames = map[string]string{}
	for i, p := range fn.Params {
		if ct.ParamNames[i] != p.Name() && ct.ParamNames[i] != "_" && p.Name() != "" {
			ct.renames[ct.ParamNames[i]] = p.Name()
		}
	}
	for _, m := range ct.Modifies {
		found := false
		for i, n := range ct.ParamNames {
			if n == m {
				ct.ModifiesIdx = append(ct.ModifiesIdx, i)
				found = true
			}
		}
		if !found {
			return fmt.Errorf("contract %s: modifies names unknown parameter %q", key, m)
		}
	}
	return nil
}

var (
	reLabel  = regexp.MustCompile(`^([A-Za-z_][A-Za-z0-9_.]*):\s+`)
	reExists = regexp.MustCompile(`^exists\s+([A-Za-z_][A-Za-z0-9_]*(?:\s+[a-z0-9]+)?(?:\s*,\s*[A-Za-z_][A-Za-z0-9_]*(?:\s+[a-z0-9]+)?)*)\s*::\s*`)
	reForall = regexp.MustCompile(`^forall\s+([A-Za-z_][A-Za-z0-9_]*(?:\s+[a-z0-9]+)?(?:\s*,\s*[A-Za-z_][A-Za-z0-9_]*(?:\s+[a-z0-9]+)?)*)\s*::\s*`)
)

// rewriteLogic turns ==> and <==> (lowest precedence, right associative) into Go boolean operators.
func rewriteLogic(s string) string {
	s = strings.TrimSpace(s)
	if l, r, ok := splitTop(s, "<==>"); ok {
		return "((" + rewriteLogic(l) + ") == (" + rewriteLogic(r) + "))"
	}
	if l, r, ok := splitTop(s, "==>"); ok {
		return "(!(" + rewriteLogic(l) + ") || (" + rewriteLogic(r) + "))"
	}
	// recurse into top-level parenthesised groups
	var b strings.Builder
	depth := 0
	start := -1
	for i := 0; i < len(s); i++ {
		switch s[i] {
		case '(':
			if depth == 0 {
				start = i
			}
			depth++
		case ')':
			depth--
			if depth == 0 && start >= 0 {
				inner := s[start+1 : i]
				if strings.Contains(inner, "==>") {
					b.WriteString("(" + rewriteLogic(inner) + ")")
				} else {
					b.WriteString(s[start : i+1])
				}
				start = -1
				continue
			}
		}
		if depth == 0 {
			b.WriteByte(s[i])
		}
	}
	return b.String()
}

func splitTop(s, sep string) (string, string, bool) {
	depth := 0
	for i := 0; i+len(sep) <= len(s); i++ {
		switch s[i] {
		case '(', '[', '{':
			depth++
		case ')', ']', '}':
			depth--
		case '"':
			j := i + 1
			for j < len(s) && s[j] != '"' {
				if s[j] == '\\' {
					j++
				}
				j++
			}
			i = j
			continue
		}
		if depth == 0 && strings.HasPrefix(s[i:], sep) {
			if sep == "==>" && i > 0 && s[i-1] == '<' {
				continue
			}
			return strings.TrimSpace(s[:i]), strings.TrimSpace(s[i+len(sep):]), true
		}
	}
	return s, "", false
}

var reUndefined = regexp.MustCompile(`undefined: ([A-Za-z_][A-Za-z0-9_]*)`)

// parseClause type-checks a clause in the scope of position pos of fn. If a name the clause mentions no longer
// exists (a local was renamed in the source), the unique unreferenced local in scope that makes the clause
// type-check is substituted; a wrong guess cannot make a false contract provable, it only fails to prove.
func (e *Engine) parseClause(ct *Contract, rc rawClause, pos token.Pos, withResults bool, idx int) (*Clause, error) {
	cl, err := e.parseClause1(ct, rc, pos, withResults, idx)
	for tries := 0; err != nil && tries < 4; tries++ {
		m := reUndefined.FindStringSubmatch(err.Error())
		if m == nil {
			return nil, err
		}
		missing := m[1]
		if ct.floatOwner != nil {
			found := false
			for _, b := range ct.floatOwner.Blocks {
				for _, in := range b.Instrs {
					if a, isA := in.(*ssa.Alloc); isA && a.Comment == missing && !found {
						if ct.floatVars == nil {
							ct.floatVars = map[string]floatVar{}
						}
						ct.floatVars[missing] = floatVar{types.TypeString(a.Type().(*types.Pointer).Elem(), types.RelativeTo(e.pkg.Types)), 1000 + len(ct.floatVars), missing}
						found = true
					}
				}
			}
			if found {
				cl, err = e.parseClause1(ct, rc, pos, withResults, idx)
				continue
			}
			// no local of that name in the helper: a renamed one, if exactly one local of the helper makes the clause
			// type-check
			seen := map[string]bool{}
			var okc []floatVar
			for _, b := range ct.floatOwner.Blocks {
				for _, in := range b.Instrs {
					a, isA := in.(*ssa.Alloc)
					if !isA || a.Comment == "" || seen[a.Comment] || strings.Contains(a.Comment, "$") || a.Comment == "rangeindex" {
						continue
					}
					seen[a.Comment] = true
					if ct.floatVars == nil {
						ct.floatVars = map[string]floatVar{}
					}
					cand := floatVar{types.TypeString(a.Type().(*types.Pointer).Elem(), types.RelativeTo(e.pkg.Types)), 1000 + len(ct.floatVars), a.Comment}
					ct.floatVars[missing] = cand
					if _, err2 := e.parseClause1(ct, rc, pos, withResults, idx); err2 == nil {
						okc = append(okc, cand)
					} else if m2 := reUndefined.FindStringSubmatch(err2.Error()); m2 != nil && m2[1] != missing {
						okc = append(okc, cand)
					}
					delete(ct.floatVars, missing)
				}
			}
			if len(okc) == 1 {
				ct.floatVars[missing] = okc[0]
				e.renameNotes = append(e.renameNotes, fmt.Sprintf("%s: contract name %q resolved to local %q of the helper %s", ct.Key, missing, okc[0].name, fnKey(ct.floatOwner)))
				cl, err = e.parseClause1(ct, rc, pos, withResults, idx)
				continue
			}
		}
		var ok []string
		for _, cand := range e.unreferencedLocals(ct, pos) {
			ct.renames[missing] = cand
			if _, err2 := e.parseClause1(ct, rc, pos, withResults, idx); err2 == nil {
				ok = append(ok, cand)
			} else if m2 := reUndefined.FindStringSubmatch(err2.Error()); m2 != nil && m2[1] != missing {
				ok = append(ok, cand) // this name resolves; another one is still missing
			}
			delete(ct.renames, missing)
		}
		if len(ok) != 1 {
			return nil, err
		}
		ct.renames[missing] = ok[0]
		e.renameNotes = append(e.renameNotes, fmt.Sprintf("%s: contract name %q resolved to local %q", ct.Key, missing, ok[0]))
		cl, err = e.parseClause1(ct, rc, pos, withResults, idx)
	}
	return cl, err
}

// unreferencedLocals: local variables visible at pos that no clause of the contract mentions.
func (e *Engine) unreferencedLocals(ct *Contract, pos token.Pos) []string {
	text := ""
	for _, rc := range ct.raw {
		text += " " + rc.text
	}
	for _, rcs := range ct.rawLoops {
		for _, rc := range rcs {
			text += " " + rc.text
		}
	}
	var out []string
	seen := map[string]bool{}
	fd, _ := ct.Fn.Syntax().(*ast.FuncDecl)
	for sc := e.pkg.Types.Scope().Innermost(pos); sc != nil && sc != e.pkg.Types.Scope(); sc = sc.Parent() {
		for _, n := range sc.Names() {
			obj := sc.Lookup(n)
			v, isVar := obj.(*types.Var)
			if !isVar || seen[n] || n == "_" {
				continue
			}
			seen[n] = true
			if _, o := sc.LookupParent(n, pos); o == nil {
				continue // declared after pos
			}
			if fd != nil && (v.Pos() < fd.Body.Lbrace) {
				continue // parameters, receiver, named results
			}
			if regexp.MustCompile(`\b` + regexp.QuoteMeta(n) + `\b`).MatchString(text) {
				continue
			}
			out = append(out, n)
		}
	}
	sort.Strings(out)
	return out
}

func (e *Engine) parseClause1(ct *Contract, rc rawClause, pos token.Pos, withResults bool, idx int) (*Clause, error) {
	cl := &Clause{Kind: rc.kind, Tags: splitTags(rc.tags), Text: rc.text}
	body := rc.text
	if m := reLabel.FindStringSubmatch(body); m != nil && !strings.HasPrefix(body, "forall") && !strings.HasPrefix(body, "exists") {
		cl.Label = m[1]
		body = body[len(m[0]):]
	} else {
		cl.Label = fmt.Sprintf("%s%d", rc.kind, idx)
	}
	addBinders := func(list string) {
		for _, b := range strings.Split(list, ",") {
			f := strings.Fields(b)
			cl.Binders = append(cl.Binders, f[0])
			if len(f) > 1 {
				cl.BTypes = append(cl.BTypes, f[1])
			} else {
				cl.BTypes = append(cl.BTypes, "int")
			}
		}
	}
	if m := reForall.FindStringSubmatch(body); m != nil {
		addBinders(m[1])
		body = body[len(m[0]):]
	} else if m := reExists.FindStringSubmatch(body); m != nil {
		cl.Exists = true
		addBinders(m[1])
		body = body[len(m[0]):]
	}
	cl.Text = strings.TrimSpace(rc.text)
	goText := rewriteLogic(body)
	ex, err := parser.ParseExpr(goText)
	if err != nil {
		return nil, fmt.Errorf("%s line %d: parse %q: %v", ct.Key, rc.line, rc.text, err)
	}
	// results and binders become typed placeholder calls specVar[T](i): the expression is then type-checked
	// directly in the scope at pos (a function-literal wrapper would lose the position and with it Go's
	// declaration-order scoping of shadowed names)
	varIdx := map[string]int{}
	varType := map[string]string{}
	if withResults {
		sig := ct.Fn.Signature
		for i, r := range ct.ResultNames {
			varIdx[r] = i
			varType[r] = types.TypeString(sig.Results().At(i).Type(), types.RelativeTo(e.pkg.Types))
		}
		cl.nRes = len(ct.ResultNames)
	}
	for i, b := range cl.Binders {
		varIdx[b] = cl.nRes + i
		varType[b] = cl.BTypes[i]
	}
	if ct.floatOwner != nil {
		for name, fv := range ct.floatVars {
			if _, shadowed := varIdx[name]; shadowed {
				continue
			}
			varIdx[name] = fv.idx
			varType[name] = fv.typ
			if cl.FloatNames == nil {
				cl.FloatNames = map[int]string{}
			}
			cl.FloatNames[fv.idx] = fv.name
		}
	}
	skip := map[*ast.Ident]bool{}
	ast.Inspect(ex, func(n ast.Node) bool {
		switch x := n.(type) {
		case *ast.SelectorExpr:
			skip[x.Sel] = true
		case *ast.KeyValueExpr:
			if id, ok := x.Key.(*ast.Ident); ok {
				skip[id] = true
			}
		}
		return true
	})
	mk := func(name string) ast.Expr {
		te, _ := parser.ParseExpr(varType[name])
		return &ast.CallExpr{Fun: &ast.IndexExpr{X: ast.NewIdent("specVar"), Index: te}, Args: []ast.Expr{&ast.BasicLit{Kind: token.INT, Value: fmt.Sprint(varIdx[name])}}}
	}
	res := astutil.Apply(ex, func(c *astutil.Cursor) bool {
		if id, ok := c.Node().(*ast.Ident); ok && !skip[id] {
			if _, isVar := varIdx[id.Name]; isVar {
				c.Replace(mk(id.Name))
				return false
			}
			if to, ok := ct.renames[id.Name]; ok {
				id.Name = to
			}
		}
		return true
	}, nil)
	ex = res.(ast.Expr)
	info := &types.Info{Types: map[ast.Expr]types.TypeAndValue{}, Uses: map[*ast.Ident]types.Object{}, Defs: map[*ast.Ident]types.Object{}, Selections: map[*ast.SelectorExpr]*types.Selection{}, Instances: map[*ast.Ident]types.Instance{}}
	if err := types.CheckExpr(e.fset, e.pkg.Types, pos, ex, info); err != nil {
		return nil, fmt.Errorf("%s line %d: %q: %v", ct.Key, rc.line, rc.text, err)
	}
	wantBool := !(rc.kind == "decreases" || rc.kind == "allocates" || rc.kind == "cases")
	if tv, ok := info.Types[ex]; ok {
		if wantBool && !isBoolType(tv.Type) {
			return nil, fmt.Errorf("%s line %d: %q is not a boolean expression", ct.Key, rc.line, rc.text)
		}
	}
	cl.Expr = ex
	cl.Info = info
	return cl, nil
}

// specVarIndex recognises the placeholder call specVar[T](i).
func specVarIndex(ex ast.Expr) (int, bool) {
	c, ok := ex.(*ast.CallExpr)
	if !ok || len(c.Args) != 1 {
		return 0, false
	}
	ix, ok := c.Fun.(*ast.IndexExpr)
	if !ok {
		return 0, false
	}
	if id, ok := ix.X.(*ast.Ident); !ok || id.Name != "specVar" {
		return 0, false
	}
	lit, ok := c.Args[0].(*ast.BasicLit)
	if !ok {
		return 0, false
	}
	var i int
	fmt.Sscanf(lit.Value, "%d", &i)
	return i, true
}

// resultAliases: top-level conjuncts `sameSlice(<result>[.field…], E)` of an ensures clause: the named component of
// the result is the slice E (same array, offset and length) rather than an arbitrary slice.
type resultAlias struct {
	res   int      // result index, or -1 if the target is `*param`
	param string   // parameter name for a `*param` target
	path  []int
	rhs   ast.Expr
	guard ast.Expr // nil: unconditional; else the alias holds when guard does (`guard ==> sameSlice(...)`)
}

// resultAliases: conjuncts `sameSlice(T, E)` of an ensures clause — at top level or directly under one top-level
// implication — where T is a result (or a field path of one) or `*p` for a pointer parameter p: the target *is*
// the slice E (same array, offset and length) rather than an arbitrary slice that happens to be equal.
func (cl *Clause) resultAliases() []resultAlias {
	if len(cl.Binders) > 0 {
		return nil
	}
	var out []resultAlias
	var walk func(ex ast.Expr, guard ast.Expr)
	walk = func(ex ast.Expr, guard ast.Expr) {
		switch x := ex.(type) {
		case *ast.ParenExpr:
			walk(x.X, guard)
		case *ast.BinaryExpr:
			if x.Op == token.LAND {
				walk(x.X, guard)
				walk(x.Y, guard)
			}
			// `A ==> B` was rewritten to `!(A) || (B)`
			if x.Op == token.LOR && guard == nil {
				l := ast.Expr(x.X)
				for {
					p, ok := l.(*ast.ParenExpr)
					if !ok {
						break
					}
					l = p.X
				}
				if n, ok := l.(*ast.UnaryExpr); ok && n.Op == token.NOT {
					walk(x.Y, n.X)
				}
			}
		case *ast.CallExpr:
			id, ok := x.Fun.(*ast.Ident)
			if !ok || id.Name != "sameSlice" || len(x.Args) != 2 {
				return
			}
			var path []int
			a := x.Args[0]
			for {
				if p, ok := a.(*ast.ParenExpr); ok {
					a = p.X
					continue
				}
				sel, ok := a.(*ast.SelectorExpr)
				if !ok {
					break
				}
				s := cl.Info.Selections[sel]
				if s == nil || s.Kind() != types.FieldVal {
					return
				}
				path = append(append([]int(nil), s.Index()...), path...)
				a = sel.X
			}
			if i, ok := specVarIndex(a); ok && i < cl.nRes {
				out = append(out, resultAlias{res: i, path: path, rhs: x.Args[1], guard: guard})
				return
			}
			if st, ok := a.(*ast.StarExpr); ok && len(path) == 0 {
				if pid, ok := st.X.(*ast.Ident); ok {
					out = append(out, resultAlias{res: -1, param: pid.Name, rhs: x.Args[1], guard: guard})
				}
			}
		}
	}
	walk(cl.Expr, nil)
	return out
}

// resultDef: for a clause of the form `result == E` (single result) returns E.
func (cl *Clause) resultDef(ct *Contract) ast.Expr {
	if len(ct.ResultNames) != 1 || len(cl.Binders) > 0 {
		return nil
	}
	ex := cl.Expr
	for {
		p, ok := ex.(*ast.ParenExpr)
		if !ok {
			break
		}
		ex = p.X
	}
	b, ok := ex.(*ast.BinaryExpr)
	if !ok || b.Op != token.EQL {
		return nil
	}
	if i, ok := specVarIndex(b.X); ok && i == 0 && cl.nRes == 1 {
		return b.Y
	}
	return nil
}

// bindContract resolves the clauses of ct against the function's syntax and CFG.
func (e *Engine) bindContract(ct *Contract) error {
	fn := ct.Fn
	fd, _ := fn.Syntax().(*ast.FuncDecl)
	if fd == nil || fd.Body == nil {
		return fmt.Errorf("contract %s: function has no syntax", ct.Key)
	}
	pos := fd.Body.Lbrace + 1
	nReq, nEns := 0, 0
	for _, rc := range ct.raw {
		switch rc.kind {
		case "requires", "assumes":
			nReq++
			rc2 := rc
			rc2.kind = "requires"
			cl, err := e.parseClause(ct, rc2, pos, false, nReq)
			if err != nil {
				return err
			}
			cl.Assumed = rc.kind == "assumes"
			ct.Requires = append(ct.Requires, cl)
		case "ensures":
			nEns++
			cl, err := e.parseClause(ct, rc, pos, true, nEns)
			if err != nil {
				return err
			}
			ct.Ensures = append(ct.Ensures, cl)
		case "allocates":
			cl, err := e.parseClause(ct, rc, pos, false, 1)
			if err != nil {
				return err
			}
			ct.AllocBound = cl
		}
	}
	var loops []token.Pos
	ast.Inspect(fd, func(n ast.Node) bool {
		switch s := n.(type) {
		case *ast.ForStmt:
			loops = append(loops, s.Body.Lbrace+1)
		case *ast.RangeStmt:
			loops = append(loops, s.Body.Lbrace+1)
		case *ast.FuncLit:
			return false
		}
		return true
	})
	hs := loopHeaders(fn)
	if len(ct.rawLoops) > 0 || len(ct.Unroll) > 0 {
		if len(hs) != len(loops) {
			return fmt.Errorf("contract %s: %d CFG loops vs %d syntactic loops", ct.Key, len(hs), len(loops))
		}
	}
	var ords []int
	maxOrd := 0
	for o := range ct.rawLoops {
		ords = append(ords, o)
		if o > maxOrd {
			maxOrd = o
		}
	}
	sort.Ints(ords)
	// Extracted loops: if the contract annotates more loops than the function has, splice in — in source order — the
	// loops of the helpers it calls that have no contract of their own. Loop k of the contract is then the k-th loop of
	// that sequence; clauses of a loop that now lives in a helper are resolved in the function's outermost scope and,
	// at verification time, names are looked up in the helper's frame first (sound: they are only candidate
	// invariants, every obligation is still proved on the code as it is).
	type seqEntry struct {
		pos    token.Pos
		header *ssa.BasicBlock
		owner  *ssa.Function
	}
	var seq []seqEntry
	for i := range loops {
		seq = append(seq, seqEntry{loops[i], hs[i], fn})
	}
	if maxOrd > len(loops) {
		if sp := e.loopSequence(fn, 0); sp != nil && len(sp) >= maxOrd {
			seq = nil
			for _, x := range sp {
				seq = append(seq, seqEntry{x.pos, x.header, x.owner})
			}
		}
	}
	for _, ord := range ords {
		if ord < 1 || ord > len(seq) {
			return fmt.Errorf("contract %s: loop %d does not exist (function has %d loops)", ct.Key, ord, len(loops))
		}
		lc := &LoopContract{Ord: ord, header: seq[ord-1].header, pos: seq[ord-1].pos, owner: seq[ord-1].owner}
		ct.floatOwner, ct.floatVars = nil, nil
		if lc.owner != fn {
			lc.floating = true
			ct.floatOwner = lc.owner
			lc.pos = fd.Body.Rbrace
			e.renameNotes = append(e.renameNotes, fmt.Sprintf("loop %d of the contract of %s applied to a loop of the helper %s", ord, ct.Key, fnKey(lc.owner)))
		}
		lc.body = naturalLoop(lc.header)
		ni := 0
		for _, rc := range ct.rawLoops[ord] {
			if rc.kind == "invariant" {
				ni++
				cl, err := e.parseClause(ct, rc, lc.pos, false, ni)
				if err != nil {
					return err
				}
				if !strings.HasPrefix(cl.Label, "invariant") {
					// keep label
				} else {
					cl.Label = fmt.Sprintf("inv%d", ni)
				}
				lc.Invariants = append(lc.Invariants, cl)
			} else if rc.kind == "keeps" {
				cl, err := e.parseClause(ct, rawClause{kind: "cases", text: "len(" + rc.text + ")", line: rc.line}, lc.pos, false, 1)
				if err != nil {
					return err
				}
				lc.Keeps = append(lc.Keeps, cl)
			} else if rc.kind == "exit" {
				cl, err := e.parseClause(ct, rc, lc.pos, false, len(lc.Exits)+1)
				if err != nil {
					return err
				}
				lc.Exits = append(lc.Exits, cl)
			} else if rc.kind == "cases" {
				f := strings.Fields(rc.text)
				if len(f) != 3 {
					return fmt.Errorf("contract %s: cases wants <local> <lo> <hi>", ct.Key)
				}
				cl, err := e.parseClause(ct, rawClause{kind: "cases", text: f[0], line: rc.line}, lc.pos, false, 1)
				if err != nil {
					return err
				}
				lc.Cases = cl
				fmt.Sscanf(f[1], "%d", &lc.CaseLo)
				fmt.Sscanf(f[2], "%d", &lc.CaseHi)
			} else {
				cl, err := e.parseClause(ct, rc, lc.pos, false, 1)
				if err != nil {
					return err
				}
				lc.Decreases = cl
			}
		}
		ct.Loops[ord] = lc
		ct.floatOwner, ct.floatVars = nil, nil
	}
	return nil
}

// ---------- CFG loops ----------

func naturalLoop(h *ssa.BasicBlock) map[*ssa.BasicBlock]bool {
	body := map[*ssa.BasicBlock]bool{h: true}
	var stack []*ssa.BasicBlock
	for _, p := range h.Preds {
		if h.Dominates(p) {
			stack = append(stack, p)
		}
	}
	for len(stack) > 0 {
		n := stack[len(stack)-1]
		stack = stack[:len(stack)-1]
		if body[n] {
			continue
		}
		body[n] = true
		stack = append(stack, n.Preds...)
	}
	return body
}

func loopHeaders(fn *ssa.Function) []*ssa.BasicBlock {
	var hs []*ssa.BasicBlock
	for _, b := range fn.Blocks {
		for _, p := range b.Preds {
			if b.Dominates(p) {
				hs = append(hs, b)
				break
			}
		}
	}
	minPos := func(h *ssa.BasicBlock) token.Pos {
		var m token.Pos
		for blk := range naturalLoop(h) {
			for _, in := range blk.Instrs {
				if p := in.Pos(); p.IsValid() && (m == 0 || p < m) {
					m = p
				}
			}
		}
		return m
	}
	sort.SliceStable(hs, func(i, j int) bool { return minPos(hs[i]) < minPos(hs[j]) })
	return hs
}

type loopSeqEntry struct {
	pos    token.Pos
	header *ssa.BasicBlock
	owner  *ssa.Function
}

// loopSequence: the loops of fn in source order, with the loops of contract-less helpers of the package spliced in
// at their call sites (depth <= 2). nil if the syntactic and CFG loop counts of some function disagree.
func (e *Engine) loopSequence(fn *ssa.Function, depth int) []loopSeqEntry {
	fd, _ := fn.Syntax().(*ast.FuncDecl)
	if fd == nil || fd.Body == nil {
		return nil
	}
	hs := loopHeaders(fn)
	var out []loopSeqEntry
	n := 0
	ok := true
	ast.Inspect(fd.Body, func(nd ast.Node) bool {
		switch x := nd.(type) {
		case *ast.FuncLit:
			return false
		case *ast.ForStmt:
			if n < len(hs) {
				out = append(out, loopSeqEntry{x.Body.Lbrace + 1, hs[n], fn})
			} else {
				ok = false
			}
			n++
		case *ast.RangeStmt:
			if n < len(hs) {
				out = append(out, loopSeqEntry{x.Body.Lbrace + 1, hs[n], fn})
			} else {
				ok = false
			}
			n++
		case *ast.CallExpr:
			if depth >= 2 {
				return true
			}
			var id *ast.Ident
			switch f := x.Fun.(type) {
			case *ast.Ident:
				id = f
			case *ast.SelectorExpr:
				id = f.Sel
			}
			if id == nil {
				return true
			}
			tf, isFn := e.pkg.TypesInfo.Uses[id].(*types.Func)
			if !isFn || tf.Pkg() != e.pkg.Types {
				return true
			}
			callee := e.prog.FuncValue(tf)
			if callee == nil || callee == fn || e.headerKeys[fnKey(callee)] {
				return true
			}
			if sub := e.loopSequence(callee, depth+1); len(sub) > 0 {
				// arguments are evaluated before the call: visit them first, then splice
				for _, a := range x.Args {
					ast.Inspect(a, func(ast.Node) bool { return true })
				}
				out = append(out, sub...)
			}
		}
		return true
	})
	if !ok || n != len(hs) {
		return nil
	}
	return out
}
