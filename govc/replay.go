package main

// Replay of solver models against the real code: a Go test injected with `go test -overlay` (nothing is
// written into the repository).

import (
	"context"
	"encoding/json"
	"fmt"
	"go/token"
	"go/types"
	"math/big"
	"os"
	"os/exec"
	"path/filepath"
	"regexp"
	"strconv"
	"strings"
	"time"
)

type tokenPos = token.Pos

const tokenLSS = token.LSS

func smtValueToBig(v string) (*big.Int, bool) {
	v = strings.TrimSpace(v)
	switch {
	case strings.HasPrefix(v, "#x"):
		n, ok := new(big.Int).SetString(v[2:], 16)
		return n, ok
	case strings.HasPrefix(v, "#b"):
		n, ok := new(big.Int).SetString(v[2:], 2)
		return n, ok
	case strings.HasPrefix(v, "(_ bv"):
		f := strings.Fields(v[5:])
		n, ok := new(big.Int).SetString(f[0], 10)
		return n, ok
	case strings.HasPrefix(v, "(- "):
		n, ok := new(big.Int).SetString(strings.TrimSuffix(v[3:], ")"), 10)
		if ok {
			n.Neg(n)
		}
		return n, ok
	case strings.HasPrefix(v, "(fp "):
		f := strings.Fields(strings.TrimSuffix(strings.TrimPrefix(v, "(fp "), ")"))
		if len(f) == 3 {
			bits := ""
			for _, p := range f {
				switch {
				case strings.HasPrefix(p, "#b"):
					bits += p[2:]
				case strings.HasPrefix(p, "#x"):
					n, _ := new(big.Int).SetString(p[2:], 16)
					bits += fmt.Sprintf("%0*b", 4*(len(p)-2), n)
				}
			}
			n, ok := new(big.Int).SetString(bits, 2)
			return n, ok
		}
		return nil, false
	case strings.HasPrefix(v, "(_ +zero"):
		return big.NewInt(0), true
	case strings.HasPrefix(v, "(_ -zero 8"):
		return new(big.Int).Lsh(big.NewInt(1), 31), true
	case strings.HasPrefix(v, "(_ -zero 11"):
		return new(big.Int).Lsh(big.NewInt(1), 63), true
	case strings.HasPrefix(v, "(_ +oo 8"):
		return big.NewInt(0x7f800000), true
	case strings.HasPrefix(v, "(_ -oo 8"):
		return big.NewInt(0xff800000), true
	case strings.HasPrefix(v, "(_ NaN 8"):
		return big.NewInt(0x7fc00000), true
	case strings.HasPrefix(v, "(_ +oo 11"):
		return new(big.Int).SetUint64(0x7ff0000000000000), true
	case strings.HasPrefix(v, "(_ -oo 11"):
		return new(big.Int).SetUint64(0xfff0000000000000), true
	case strings.HasPrefix(v, "(_ NaN 11"):
		return new(big.Int).SetUint64(0x7ff8000000000000), true
	case v == "true":
		return big.NewInt(1), true
	case v == "false":
		return big.NewInt(0), true
	}
	n, ok := new(big.Int).SetString(v, 10)
	return n, ok
}

var reFP = regexp.MustCompile(`^\(fp (#b[01]+) (#[xb][0-9a-f]+) (#[xb][0-9a-f]+)\)$`)

// replayObligation tries to turn the model of a failed obligation into a concrete call of the real function.
func replayObligation(eng *Engine, opts CheckOpts, ur *UnitResult, nr *namedResult) *ReplayInfo {
	rp := &ReplayInfo{Model: map[string]string{}}
	o := nr.Worst
	if o == nil || o.Res == nil {
		rp.Note = "no solver result"
		return rp
	}
	if o.Res.Status != "sat" {
		rp.Note = "solver answered " + o.Res.Status + ": obligation not discharged, no model"
		return rp
	}
	vals := parseGetValue(o.Res.Output)
	if ur == nil || opts.NoReplay {
		rp.Note = "model available, replay disabled"
		return rp
	}
	ct := eng.contracts[ur.Key]
	if ct == nil {
		rp.Note = "no contract"
		return rp
	}
	// collect entry values
	lens := map[string]int64{}
	scal := map[string]*big.Int{}
	bytesOf := map[string][]byte{}
	for _, ev := range ur.Entry {
		switch ev.Kind {
		case "len":
			if v, ok := vals[strings.ReplaceAll(ev.Term.String(), "|", "")]; ok {
				if n, ok := smtValueToBig(v); ok {
					lens[ev.Name] = n.Int64()
					rp.Model["len("+ev.Name+")"] = n.String()
				}
			}
		case "scalar":
			if v, ok := vals[strings.ReplaceAll(ev.Term.String(), "|", "")]; ok {
				rp.Model[ev.Name] = v
				if n, ok := smtValueToBig(v); ok {
					scal[ev.Name] = n
				}
			}
		}
	}
	for _, ev := range ur.Entry {
		if ev.Kind != "bytes" {
			continue
		}
		n := lens[ev.Name]
		if n > 1<<20 {
			rp.Note = fmt.Sprintf("model needs a %d-byte input: not replayed", n)
			return rp
		}
		buf := make([]byte, n)
		for i := int64(0); i < n && i < 48; i++ {
			if v, ok := vals[strings.ReplaceAll(Select(ev.Arr, IntK(i)).String(), "|", "")]; ok {
				if b, ok := smtValueToBig(v); ok {
					buf[i] = byte(b.Int64())
				}
			}
		}
		bytesOf[ev.Name] = buf
		rp.Model[ev.Name] = fmt.Sprintf("%x", buf)
	}
	src, ok := buildReplayTest(eng, ct, nr, lens, scal, bytesOf)
	if !ok {
		rp.Note = "model found, but the inputs of this function cannot be built automatically from it"
		return rp
	}
	rp.GoTest = src
	out, err := runOverlayTest(opts, src, "TestGovcReplay")
	rp.Output = out
	if err != nil && !strings.Contains(out, "REPLAY-") {
		rp.Note = "replay test did not run: " + err.Error()
		return rp
	}
	switch {
	case strings.Contains(out, "REPLAY-CONFIRMED"):
		rp.Confirmed = true
		rp.Note = "counterexample confirmed on the real code"
	default:
		rp.Note = "model did not reproduce on the real code"
	}
	return rp
}

func goLit(t types.Type, v *big.Int) string {
	if isBoolType(t) {
		if v.Sign() != 0 {
			return "true"
		}
		return "false"
	}
	if w, sg, ok := intWidth(t); ok {
		if sg && w > 0 {
			v = signedVal(v, w)
		}
		return fmt.Sprintf("%s(%s)", relType(t), v.String())
	}
	switch floatBits(t) {
	case 32:
		return fmt.Sprintf("%s(math.Float32frombits(0x%x))", relType(t), v)
	case 64:
		return fmt.Sprintf("%s(math.Float64frombits(0x%x))", relType(t), v)
	}
	return ""
}

// clauseToGo renders an ensures clause as a Go boolean expression (for replay); ok=false if it uses
// constructs without a run-time meaning.
func clauseToGo(text string) (string, bool) {
	body := strings.TrimSpace(text)
	if m := reLabel.FindStringSubmatch(body); m != nil && !strings.HasPrefix(body, "forall") {
		body = body[len(m[0]):]
	}
	var binders []string
	if m := reForall.FindStringSubmatch(body); m != nil {
		for _, b := range strings.Split(m[1], ",") {
			binders = append(binders, strings.TrimSpace(b))
		}
		body = body[len(m[0]):]
	}
	for _, bad := range []string{"old(", "allocated(", "iter(", "unchanged(", "isFresh(", "callArg(", "callRet(", "ncalls("} {
		if strings.Contains(body, bad) {
			return "", false
		}
	}
	g := rewriteLogic(body)
	for i := len(binders) - 1; i >= 0; i-- {
		g = "forallInt(func(" + binders[i] + " int) bool { return " + g + " })"
	}
	return g, true
}

// buildReplayTest: supports functions whose parameters are byte slices, scalars, and structs/pointers to
// structs of such (nested lists are zero-filled to the model's length).
func buildReplayTest(eng *Engine, ct *Contract, nr *namedResult, lens map[string]int64, scal map[string]*big.Int, bytesOf map[string][]byte) (string, bool) {
	fn := ct.Fn
	var b strings.Builder
	b.WriteString("package rtcp\n\nimport (\n\t\"fmt\"\n\t\"math\"\n\t\"testing\"\n)\n\nvar _ = math.Pi\n\nfunc TestGovcReplay(t *testing.T) {\n")
	var build func(name string, t types.Type) (string, bool)
	build = func(name string, t types.Type) (string, bool) {
		if v, ok := scal[name]; ok {
			if l := goLit(t, v); l != "" {
				return l, true
			}
		}
		if _, _, ok := intWidth(t); ok || isBoolType(t) || floatBits(t) > 0 {
			return goLit(t, new(big.Int)), true // unconstrained in the model
		}
		switch ut := t.Underlying().(type) {
		case *types.Slice:
			if _, ok := lens[name]; !ok {
				return "(" + relType(t) + ")(nil)", true // unconstrained in the model
			}
			if isByteType(ut.Elem()) {
				if bs, ok := bytesOf[name]; ok {
					parts := make([]string, len(bs))
					for i, x := range bs {
						parts[i] = strconv.Itoa(int(x))
					}
					return "[]byte{" + strings.Join(parts, ",") + "}", true
				}
			}
			if n, ok := lens[name]; ok && n == 0 {
				return "(" + relType(t) + ")(nil)", true
			}
			if n, ok := lens[name]; ok && n <= 1<<20 {
				return fmt.Sprintf("make(%s, %d)", relType(t), n), true
			}
			return "", false
		case *types.Struct:
			var fs []string
			for i := 0; i < ut.NumFields(); i++ {
				f := ut.Field(i)
				l, ok := build(name+"."+f.Name(), f.Type())
				if !ok {
					return "", false
				}
				fs = append(fs, f.Name()+": "+l)
			}
			return relType(t) + "{" + strings.Join(fs, ", ") + "}", true
		case *types.Basic:
			if isStringType(t) {
				if n, ok := lens[name]; ok && n <= 1<<20 {
					return fmt.Sprintf("string(make([]byte, %d))", n), true
				} else if !ok {
					return `""`, true
				}
			}
		}
		return "", false
	}
	var callArgs []string
	recvExpr := ""
	for i, p := range fn.Params {
		name := p.Name()
		if name == "" || name == "_" {
			name = fmt.Sprintf("arg%d", i)
		}
		isRecv := i == 0 && fn.Signature.Recv() != nil
		t := p.Type()
		var lit string
		if pt, ok := t.Underlying().(*types.Pointer); ok {
			if isModified(ct, i) && ct.Recv != "any" {
				lit = "new(" + relType(pt.Elem()) + ")"
			} else {
				l, ok := build(p.Name(), pt.Elem())
				if !ok {
					return "", false
				}
				lit = "&" + l
			}
		} else {
			l, ok := build(p.Name(), t)
			if !ok {
				return "", false
			}
			lit = l
		}
		fmt.Fprintf(&b, "\t%s := %s\n\t_ = %s\n", name, lit, name)
		if isRecv {
			recvExpr = name
		} else {
			callArgs = append(callArgs, name)
		}
	}
	call := fn.Name() + "(" + strings.Join(callArgs, ", ") + ")"
	if recvExpr != "" {
		call = recvExpr + "." + call
	}
	b.WriteString("\tdefer func() {\n\t\tif r := recover(); r != nil {\n")
	if safetyKinds[nr.Kind] {
		b.WriteString("\t\t\tfmt.Println(\"REPLAY-CONFIRMED panic:\", r)\n")
	} else {
		b.WriteString("\t\t\tfmt.Println(\"REPLAY-PANIC (the failed clause is about returned values):\", r)\n")
	}
	b.WriteString("\t\t}\n\t}()\n")
	nres := fn.Signature.Results().Len()
	if nres > 0 {
		fmt.Fprintf(&b, "\t%s := %s\n", strings.Join(ct.ResultNames, ", "), call)
		for _, r := range ct.ResultNames {
			fmt.Fprintf(&b, "\t_ = %s\n", r)
		}
		fmt.Fprintf(&b, "\tfmt.Printf(\"REPLAY-RETURNED %%v\\n\", []interface{}{%s})\n", strings.Join(ct.ResultNames, ", "))
	} else {
		fmt.Fprintf(&b, "\t%s\n\tfmt.Println(\"REPLAY-RETURNED\")\n", call)
	}
	if nr.Kind == "post" {
		g, ok := clauseToGo(nr.Clause)
		if !ok {
			return "", false
		}
		// header names may differ from the source's parameter names
		for from, to := range ct.renames {
			g = regexp.MustCompile(`\b`+regexp.QuoteMeta(from)+`\b`).ReplaceAllString(g, to)
		}
		fmt.Fprintf(&b, "\tif holds := %s; !holds {\n\t\tfmt.Println(\"REPLAY-CONFIRMED clause violated\")\n\t} else {\n\t\tfmt.Println(\"REPLAY-NOT-CONFIRMED clause holds\")\n\t}\n", g)
	}
	b.WriteString("}\n")
	return b.String(), true
}

// runOverlayTest runs an in-package test injected through -overlay against the repository.
func runOverlayTest(opts CheckOpts, src, testName string) (string, error) {
	dir := filepath.Join(workDirRoot, fmt.Sprintf("replay%d", time.Now().UnixNano()))
	os.MkdirAll(dir, 0o755)
	defer os.RemoveAll(dir)
	tf := filepath.Join(dir, "zz_govc_replay_test.go")
	if err := os.WriteFile(tf, []byte(src), 0o644); err != nil {
		return "", err
	}
	ov := map[string]map[string]string{"Replace": {filepath.Join(opts.Repo, "zz_govc_replay_test.go"): tf}}
	ob, _ := json.Marshal(ov)
	of := filepath.Join(dir, "overlay.json")
	os.WriteFile(of, ob, 0o644)
	ctx, cancel := context.WithTimeout(context.Background(), 120*time.Second)
	defer cancel()
	cmd := exec.CommandContext(ctx, "sh", "-c", fmt.Sprintf("ulimit -v 8388608; exec go test -tags verif -overlay %s -vet=off -count=1 -timeout 60s -run '^%s$' -v .", of, testName))
	cmd.Dir = opts.Repo
	cmd.Env = append(os.Environ(), "GOFLAGS=-mod=mod", "GOPROXY=off", "GOSUMDB=off", "GOTOOLCHAIN=local")
	out, err := cmd.CombinedOutput()
	return string(out), err
}

// replayWitness runs the witness test of a known finding; the test prints DEFECT-PRESENT when it reproduces.
func replayWitness(opts CheckOpts, f Finding) (bool, string) {
	if f.Witness == "" {
		return true, ""
	}
	b, err := os.ReadFile(filepath.Join(opts.VerifDir, "known", "known_findings_test.go"))
	if err != nil {
		return false, err.Error()
	}
	out, _ := runOverlayTest(opts, string(b), f.Witness)
	if strings.Contains(out, "DEFECT-PRESENT") {
		return true, ""
	}
	if len(out) > 400 {
		out = out[len(out)-400:]
	}
	return false, out
}

// RunReplay re-runs the Go test stored in a replay file against the repository.
func RunReplay(file, repo, verif string) int {
	b, err := os.ReadFile(file)
	if err != nil {
		fmt.Fprintln(os.Stderr, "govc:", err)
		return 2
	}
	var m map[string]interface{}
	if err := json.Unmarshal(b, &m); err != nil {
		fmt.Fprintln(os.Stderr, "govc:", err)
		return 2
	}
	fmt.Printf("obligation: %v\nclause: %v\nnote: %v\n", m["obligation"], m["clause"], m["note"])
	if bm, ok := m["bounded"].(map[string]interface{}); ok {
		return replayBounded(bm, repo, verif)
	}
	src, _ := m["go_test"].(string)
	if src == "" {
		fmt.Println("no replayable input in this file (no-failing-input-found); solver output:")
		fmt.Println(m["solver_output"])
		return 1
	}
	workDirRoot = filepath.Join(verif, ".work", fmt.Sprintf("%d", os.Getpid()))
	os.MkdirAll(workDirRoot, 0o755)
	defer os.RemoveAll(workDirRoot)
	out, _ := runOverlayTest(CheckOpts{Repo: repo, VerifDir: verif}, src, "TestGovcReplay")
	fmt.Println(out)
	if strings.Contains(out, "REPLAY-CONFIRMED") {
		return 1
	}
	return 0
}

// replayBounded re-runs one generated case of a bounded stand-in against the repository's current source.
func replayBounded(bm map[string]interface{}, repo, verif string) int {
	eng, err := LoadEngine(repo)
	if err != nil {
		fmt.Fprintln(os.Stderr, "govc:", err)
		return 2
	}
	fnKey, _ := bm["function"].(string)
	ct := eng.contracts[fnKey]
	if ct == nil || ct.Bounded == "" {
		fmt.Println("no bounded contract for", fnKey)
		return 2
	}
	ff, _ := loadFindings(filepath.Join(verif, "known_findings.json"))
	workDirRoot = filepath.Join(verif, ".work", fmt.Sprintf("%d", os.Getpid()))
	os.MkdirAll(workDirRoot, 0o755)
	defer os.RemoveAll(workDirRoot)
	src, _ := buildBoundedSource([]*Contract{ct}, ff.Findings)
	cs, _ := bm["case"].(float64)
	seed, _ := bm["seed"].(float64)
	out, _ := runBoundedTest(CheckOpts{Repo: repo, VerifDir: verif}, src, []string{fmt.Sprintf("GOVC_BOUNDED_SEED=%d", int(seed)),
		fmt.Sprintf("GOVC_BOUNDED_CASE=%d", int(cs)), fmt.Sprintf("GOVC_BOUNDED_N=%d", int(cs)+1)}, 120*time.Second)
	fmt.Println(out)
	if strings.Contains(out, "BOUNDED-FAIL") {
		fmt.Println("REPLAY-CONFIRMED")
		return 1
	}
	return 0
}
