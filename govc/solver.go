package main

// Solver access: one long-lived incremental z3 per unit for feasibility pruning (never evidence),
// and a portfolio (z3-new, z3, cvc5) over stand-alone SMT-LIB files for obligations.

import (
	"bufio"
	"bytes"
	"context"
	"crypto/sha1"
	"fmt"
	"io"
	"os"
	"os/exec"
	"path/filepath"
	"strings"
	"sync"
	"time"
)

type IncSolver struct {
	cmd    *exec.Cmd
	in     io.WriteCloser
	out    *bufio.Reader
	known  map[string]bool
	N      int
	Time   time.Duration
	broken bool
}

func NewIncSolver() *IncSolver {
	bin := os.Getenv("GOVC_INC")
	if bin == "" {
		bin = "z3-new"
	}
	c := exec.Command(bin, "-in", "-t:120")
	in, _ := c.StdinPipe()
	out, _ := c.StdoutPipe()
	c.Stderr = io.Discard
	if err := c.Start(); err != nil {
		panic(err)
	}
	s := &IncSolver{cmd: c, in: in, out: bufio.NewReader(out), known: map[string]bool{}}
	fmt.Fprintln(in, "(set-logic ALL)")
	return s
}

func (s *IncSolver) Close() {
	if s == nil {
		return
	}
	s.in.Close()
	s.cmd.Process.Kill()
	s.cmd.Wait()
}

// Feasible reports whether the conjunction may be satisfiable (unknown counts as feasible).
func (s *IncSolver) Feasible(asserts []*Term) bool {
	for _, a := range asserts {
		if a.IsFalse() {
			return false
		}
	}
	asserts = dropFP(asserts)
	if s.broken {
		return true
	}
	s.N++
	t0 := time.Now()
	defer func() {
		d := time.Since(t0)
		s.Time += d
		if os.Getenv("GOVC_TRACE") != "" && d > 20*time.Millisecond {
			fmt.Fprintf(os.Stderr, "inc query %v: %d asserts, %d nodes\n", d.Round(time.Millisecond), len(asserts), termSize(asserts))
			if d > 300*time.Millisecond && os.Getenv("GOVC_TRACE") == "dump" {
				os.WriteFile(fmt.Sprintf("/tmp/slow-%d.smt2", s.N), []byte("(set-logic ALL)\n"+Script(asserts, nil, false)+"(check-sat)\n"), 0o644)
			}
		}
	}()
	var b bytes.Buffer
	b.WriteString(Script(asserts, s.known, true))
	b.WriteString("(check-sat)\n(pop 1)\n")
	if _, err := s.in.Write(b.Bytes()); err != nil {
		s.broken = true
		return true
	}
	for {
		line, err := s.out.ReadString('\n')
		if err != nil {
			s.broken = true
			return true
		}
		line = strings.TrimSpace(line)
		switch {
		case line == "unsat":
			return false
		case line == "sat":
			return true
		case line == "unknown" || line == "timeout":
			// incremental mode gives up early on mixed Int/bit-vector goals that a fresh solver decides at once
			return oneShotFeasible(asserts)
		case strings.HasPrefix(line, "(error"):
			fmt.Fprintln(os.Stderr, "govc: incremental solver:", line)
			// keep reading: a check-sat answer still follows
		}
	}
}

// ModelInt returns the value of an Int term in some model of asserts (ok=false if none is found).
func (s *IncSolver) ModelInt(asserts []*Term, t *Term) (int64, bool) {
	if s.broken || t.fp {
		return 0, false
	}
	asserts = dropFP(asserts)
	s.N++
	t0 := time.Now()
	defer func() { s.Time += time.Since(t0) }()
	var b bytes.Buffer
	b.WriteString(Script(append(append([]*Term(nil), asserts...), Eq(t, t)), s.known, true))
	b.WriteString("(check-sat)\n")
	if _, err := s.in.Write(b.Bytes()); err != nil {
		s.broken = true
		return 0, false
	}
	line, err := s.out.ReadString('\n')
	if err != nil {
		s.broken = true
		return 0, false
	}
	if strings.TrimSpace(line) != "sat" {
		fmt.Fprintln(s.in, "(pop 1)")
		return 0, false
	}
	// shared sub-terms are define-funs of this scope, so the term can be printed by name-free text
	fmt.Fprintf(s.in, "(get-value (%s))\n(pop 1)\n", t.String())
	var acc strings.Builder
	depth := 0
	for {
		line, err := s.out.ReadString('\n')
		if err != nil {
			s.broken = true
			return 0, false
		}
		acc.WriteString(line)
		depth += strings.Count(line, "(") - strings.Count(line, ")")
		if depth <= 0 {
			break
		}
	}
	out := acc.String()
	if strings.Contains(out, "error") {
		return 0, false
	}
	// value is the last atom or (- n)
	out = strings.TrimSpace(out)
	out = strings.TrimSuffix(strings.TrimSuffix(out, ")"), ")")
	if i := strings.LastIndex(out, "(- "); i >= 0 {
		n, ok := smtValueToBig(out[i:] + ")")
		if ok {
			return n.Int64(), true
		}
	}
	f := strings.Fields(out)
	if len(f) == 0 {
		return 0, false
	}
	n, ok := smtValueToBig(f[len(f)-1])
	if !ok {
		return 0, false
	}
	return n.Int64(), true
}

func oneShotFeasible(asserts []*Term) bool {
	script := "(set-logic ALL)\n" + Script(asserts, nil, false) + "(check-sat)\n"
	ctx, cancel := context.WithTimeout(context.Background(), 3*time.Second)
	defer cancel()
	c := exec.CommandContext(ctx, "z3-new", "-in", "-T:2")
	c.Stdin = strings.NewReader(script)
	out, _ := c.Output()
	return firstLine(string(out)) != "unsat"
}

// dropFP removes floating-point facts from a pruning query: the incremental solver is slow on them, and a
// query with fewer hypotheses only over-approximates feasibility (sound for pruning and for validity).
func dropFP(asserts []*Term) []*Term {
	n := 0
	for _, a := range asserts {
		if a.fp {
			n++
		}
	}
	if n == 0 {
		return asserts
	}
	out := make([]*Term, 0, len(asserts)-n)
	for _, a := range asserts {
		if !a.fp {
			out = append(out, a)
		}
	}
	return out
}

// Valid reports whether goal follows from asserts according to the incremental solver (unknown = false).
func (s *IncSolver) Valid(asserts []*Term, goal *Term) bool {
	if goal.IsTrue() {
		return true
	}
	if goal.fp {
		return false
	}
	return !s.Feasible(append(append([]*Term(nil), asserts...), Not(goal)))
}

// ---- stand-alone portfolio ----

type ProveResult struct {
	Status  string // unsat | sat | unknown | timeout | error
	Solver  string
	Ms      int64
	Output  string // raw output of the deciding (or last) solver
	File    string
	Agree   []string // solvers that answered unsat (thorough tier)
	Answers map[string]string
}

type solverSpec struct {
	name string
	argv func(file string, timeoutS int) []string
}

var solverSpecs = []solverSpec{
	{"z3-new", func(f string, t int) []string { return []string{"z3-new", fmt.Sprintf("-T:%d", t), f} }},
	{"z3", func(f string, t int) []string { return []string{"z3", fmt.Sprintf("-T:%d", t), f} }},
	{"cvc5", func(f string, t int) []string {
		return []string{"cvc5", "--lang=smt2", "--produce-models", fmt.Sprintf("--tlimit=%d", t*1000), f}
	}},
}

var (
	solverSem   = make(chan struct{}, 16)
	proveCache  sync.Map // sha1 of script -> *ProveResult (only unsat results)
	workDirRoot string
)

func smtPrelude(needModels bool) string {
	s := ""
	if needModels {
		s += "(set-option :produce-models true)\n"
	}
	return s + "(set-logic ALL)\n"
}

// Prove checks hyps ⊨ goal. getvals are terms whose values are requested when the answer is sat.
// mirrorFacts: Int-sorted restatements of bit-vector comparisons (IntMirror) that were added as hypotheses.
var mirrorFacts sync.Map

func Prove(name string, hyps []*Term, goal *Term, getvals []*Term, timeoutS int, needTwo bool) *ProveResult {
	if goal.IsTrue() {
		return &ProveResult{Status: "unsat", Solver: "simplifier"}
	}
	asserts := append(append([]*Term(nil), hyps...), Not(goal))
	for _, a := range asserts {
		if a.IsFalse() {
			return &ProveResult{Status: "unsat", Solver: "simplifier"}
		}
	}
	body := Script(asserts, nil, false)
	var b strings.Builder
	b.WriteString(smtPrelude(true))
	b.WriteString(body)
	b.WriteString("(check-sat)\n")
	if len(getvals) > 0 {
		// get-value only over terms whose free variables are declared in this script
		declared := map[string]bool{}
		subTerms(asserts, func(t *Term) {
			if t.Op == "var" {
				declared[t.Name] = true
			}
		})
		var gv []string
		for _, g := range getvals {
			ok := true
			subTerms([]*Term{g}, func(t *Term) {
				if t.Op == "var" && !declared[t.Name] {
					ok = false
				}
			})
			if ok {
				gv = append(gv, g.String())
			}
		}
		if len(gv) > 0 {
			b.WriteString("(get-value (" + strings.Join(gv, " ") + "))\n")
		}
	}
	script := b.String()
	sum := fmt.Sprintf("%x", sha1.Sum([]byte(script)))
	if !needTwo {
		if r, ok := proveCache.Load(sum); ok {
			rr := *(r.(*ProveResult))
			return &rr
		}
	}
	file := filepath.Join(workDirRoot, sanitize(name)+"-"+sum[:10]+".smt2")
	if err := os.WriteFile(file, []byte(script), 0o644); err != nil {
		return &ProveResult{Status: "error", Output: err.Error()}
	}
	res := race(file, timeoutS, needTwo)
	res.File = file
	if res.Status != "unsat" && res.Status != "sat" {
		// undecided: the integer "mirror" facts added for bit-vector comparisons help most goals and hurt a few; an
		// unsat answer from fewer hypotheses is still a proof
		var fewer []*Term
		for _, h := range hyps {
			if _, isMirror := mirrorFacts.Load(h); !isMirror {
				fewer = append(fewer, h)
			}
		}
		if len(fewer) < len(hyps) {
			if r2 := Prove(name+".nomirror", fewer, goal, getvals, timeoutS, needTwo); r2.Status == "unsat" {
				r2.Ms += res.Ms
				return r2
			}
		}
	}
	if res.Status == "unsat" {
		proveCache.Store(sum, res)
		if os.Getenv("GOVC_KEEPALL") == "" {
			os.Remove(file)
		}
	}
	return res
}

func firstLine(s string) string {
	for _, l := range strings.Split(s, "\n") {
		l = strings.TrimSpace(l)
		if l == "sat" || l == "unsat" || l == "unknown" || l == "timeout" {
			return l
		}
	}
	return "error"
}

func race(file string, timeoutS int, needTwo bool) *ProveResult {
	solverSem <- struct{}{}
	defer func() { <-solverSem }()
	t0 := time.Now()
	ctx, cancel := context.WithTimeout(context.Background(), time.Duration(timeoutS+2)*time.Second)
	defer cancel()
	type ans struct {
		solver, status, out string
		ms                  int64
	}
	ch := make(chan ans, len(solverSpecs))
	for _, sp := range solverSpecs {
		sp := sp
		go func() {
			argv := sp.argv(file, timeoutS)
			c := exec.CommandContext(ctx, argv[0], argv[1:]...)
			out, _ := c.CombinedOutput()
			st := firstLine(string(out))
			if ctx.Err() != nil && st == "error" {
				st = "timeout"
			}
			ch <- ans{sp.name, st, string(out), time.Since(t0).Milliseconds()}
		}()
	}
	res := &ProveResult{Status: "unknown", Answers: map[string]string{}}
	var last ans
	for i := 0; i < len(solverSpecs); i++ {
		a := <-ch
		res.Answers[a.solver] = a.status
		last = a
		switch a.status {
		case "unsat":
			res.Agree = append(res.Agree, a.solver)
			if res.Status != "unsat" && res.Status != "sat" {
				res.Status, res.Solver, res.Ms, res.Output = "unsat", a.solver, a.ms, a.out
			}
			if res.Status == "sat" {
				res.Status = "solver-disagreement"
			}
			if !needTwo || len(res.Agree) >= 2 {
				cancel()
				return res
			}
		case "sat":
			if res.Status == "unsat" {
				res.Status = "solver-disagreement"
				res.Output += "\n--- " + a.solver + " says sat:\n" + a.out
				cancel()
				return res
			}
			res.Status, res.Solver, res.Ms, res.Output = "sat", a.solver, a.ms, a.out
			cancel()
			return res
		}
	}
	if res.Status == "unknown" {
		res.Solver, res.Ms, res.Output = last.solver, time.Since(t0).Milliseconds(), last.out
		allTO := true
		for _, s := range res.Answers {
			if s != "timeout" {
				allTO = false
			}
		}
		if allTO {
			res.Status = "timeout"
		}
	}
	return res
}

func sanitize(s string) string {
	var b strings.Builder
	for _, r := range s {
		if r >= 'a' && r <= 'z' || r >= 'A' && r <= 'Z' || r >= '0' && r <= '9' || r == '.' || r == '-' {
			b.WriteRune(r)
		} else {
			b.WriteRune('_')
		}
	}
	x := b.String()
	if len(x) > 100 {
		x = x[:100]
	}
	return x
}

// parseGetValue parses "((term value) ...)" output into a map from the printed term to the printed value.
func parseGetValue(out string) map[string]string {
	res := map[string]string{}
	i := strings.Index(out, "((")
	if i < 0 {
		return res
	}
	s := out[i:]
	toks := sexpTokens(s)
	pos := 0
	var parse func() interface{}
	parse = func() interface{} {
		if pos >= len(toks) {
			return nil
		}
		t := toks[pos]
		pos++
		if t == "(" {
			var l []interface{}
			for pos < len(toks) && toks[pos] != ")" {
				l = append(l, parse())
			}
			pos++
			return l
		}
		return t
	}
	top, _ := parse().([]interface{})
	for _, p := range top {
		pair, ok := p.([]interface{})
		if !ok || len(pair) != 2 {
			continue
		}
		res[strings.ReplaceAll(sexpString(pair[0]), "|", "")] = sexpString(pair[1])
	}
	return res
}

func sexpTokens(s string) []string {
	var toks []string
	for i := 0; i < len(s); {
		c := s[i]
		switch {
		case c == '(' || c == ')':
			toks = append(toks, string(c))
			i++
		case c == ' ' || c == '\n' || c == '\t' || c == '\r':
			i++
		case c == '|':
			j := strings.IndexByte(s[i+1:], '|')
			if j < 0 {
				j = len(s) - i - 2
			}
			toks = append(toks, s[i:i+j+2])
			i += j + 2
		default:
			j := i
			for j < len(s) && !strings.ContainsRune("() \n\t\r", rune(s[j])) {
				j++
			}
			toks = append(toks, s[i:j])
			i = j
		}
	}
	return toks
}

func sexpString(x interface{}) string {
	switch v := x.(type) {
	case string:
		return v
	case []interface{}:
		parts := make([]string, len(v))
		for i, e := range v {
			parts[i] = sexpString(e)
		}
		return "(" + strings.Join(parts, " ") + ")"
	}
	return ""
}
