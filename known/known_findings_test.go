package rtcp

// Witness tests for the entries of /verif/known_findings.json. Injected with `go test -overlay`; each test
// prints DEFECT-PRESENT when the recorded defect still reproduces on the real code.

import (
	"fmt"
	"testing"
)

func TestKnownSLIAccepts205(t *testing.T) {
	var p SliceLossIndication
	// PT 205 (transport-specific feedback) with FMT 2 is not an SLI per RFC 4585
	err := p.Unmarshal([]byte{0x82, 0xcd, 0x00, 0x03, 0, 0, 0, 1, 0, 0, 0, 2, 0x55, 0x50, 0x00, 0x2C})
	if err == nil {
		fmt.Println("DEFECT-PRESENT SliceLossIndication.Unmarshal accepted PT 205")
	}
}

func TestKnownREMBMantissaZero(t *testing.T) {
	var p ReceiverEstimatedMaximumBitrate
	// exponent 0, mantissa 0: the wire value is 0 * 2^0 = 0
	err := p.Unmarshal([]byte{0x8f, 0xce, 0x00, 0x04, 0, 0, 0, 1, 0, 0, 0, 0, 'R', 'E', 'M', 'B', 0, 0x00, 0x00, 0x00})
	if err == nil && p.Bitrate != 0 {
		fmt.Println("DEFECT-PRESENT REMB mantissa 0 decoded to", p.Bitrate)
	}
}
