#!/bin/sh
# Builds the verifier from files on disk only (vendored x/tools); offline.
set -e
cd "$(dirname "$0")/govc"
export GOFLAGS=-mod=vendor GOPROXY=off GOSUMDB=off GOTOOLCHAIN=local
mkdir -p ../bin
go build -o ../bin/govc .
