package main

import (
	"go/parser"
	"fmt"
	"go/ast"
	"go/token"
	"go/types"
	"os"
	"path/filepath"
	"sort"
	"strings"
	"sync"

	"golang.org/x/tools/go/packages"
	"golang.org/x/tools/go/ssa"
	"golang.org/x/tools/go/ssa/ssautil"
)

type Engine struct {
	repo      string
	prog      *ssa.Program
	fset      *token.FileSet
	pkg       *packages.Package
	ssaPkg    *ssa.Package
	fns       map[string]*ssa.Function
	contracts map[string]*Contract
	order     []*Contract
	mu        sync.Mutex
	typeIDs   map[string]int
	globIDs   map[*ssa.Global]int
	impls     map[string][]types.Type
	wsum      map[*ssa.Function][]bool
	assumed   map[string]bool
	loadErrs  []string
	loadErrInfo []loadErr
	headerKeys  map[string]bool // keys named by contract headers (before renamed-function recovery)
	renameNotes []string
	ginit     *globalInit
	ginitOnce sync.Once
}

// loadErr: a contract that does not resolve against the current source, with the properties it carries clauses for.
type loadErr struct {
	key  string
	tags []string
	msg  string
}

func contractTags(ct *Contract) []string {
	seen := map[string]bool{}
	var out []string
	add := func(ts []string) {
		for _, t := range ts {
			if t != "" && !seen[t] {
				seen[t] = true
				out = append(out, t)
			}
		}
	}
	add(ct.SafetyTags)
	add(ct.BoundedTags)
	for _, rc := range ct.raw {
		add(splitTags(rc.tags))
	}
	for _, rcs := range ct.rawLoops {
		for _, rc := range rcs {
			add(splitTags(rc.tags))
		}
	}
	return out
}

func (e *Engine) addLoadErr(ct *Contract, msg string) {
	e.loadErrs = append(e.loadErrs, msg)
	e.loadErrInfo = append(e.loadErrInfo, loadErr{ct.Key, contractTags(ct), msg})
}

// globalInit: the values package init gives to package-level variables that are never written afterwards
// (lookup tables). The init function is executed by the same symbolic executor (it is straight-line code over
// constants); its objects and regions are shared, read-only, by every unit.
type globalInit struct {
	st    *State
	objOf map[*ssa.Global]*Object
	note  string
}

// readonlyGlobals: globals of the package that no function other than init stores to or takes the address of
// (except to index / select a field and load).
func (e *Engine) readonlyGlobals() map[*ssa.Global]bool {
	ro := map[*ssa.Global]bool{}
	for _, m := range e.ssaPkg.Members {
		if g, ok := m.(*ssa.Global); ok {
			ro[g] = true
		}
	}
	var onlyLoaded func(v ssa.Value) bool
	onlyLoaded = func(v ssa.Value) bool {
		refs := v.Referrers()
		if refs == nil {
			return false
		}
		for _, r := range *refs {
			switch x := r.(type) {
			case *ssa.UnOp:
				if x.Op != token.MUL {
					return false
				}
			case *ssa.IndexAddr:
				if x.X != v || !onlyLoaded(x) {
					return false
				}
			case *ssa.FieldAddr:
				if x.X != v || !onlyLoaded(x) {
					return false
				}
			case *ssa.DebugRef:
			default:
				return false
			}
		}
		return true
	}
	for fn := range ssautil.AllFunctions(e.prog) {
		if fn.Pkg != e.ssaPkg || fn.Name() == "init" {
			continue
		}
		for _, b := range fn.Blocks {
			for _, in := range b.Instrs {
				for _, op := range in.Operands(nil) {
					g, ok := (*op).(*ssa.Global)
					if !ok || !ro[g] {
						continue
					}
					switch x := in.(type) {
					case *ssa.UnOp:
						if x.Op != token.MUL {
							ro[g] = false
						}
					case *ssa.IndexAddr:
						if x.X != ssa.Value(g) || !onlyLoaded(x) {
							ro[g] = false
						}
					case *ssa.FieldAddr:
						if x.X != ssa.Value(g) || !onlyLoaded(x) {
							ro[g] = false
						}
					case *ssa.DebugRef:
					default:
						ro[g] = false
					}
				}
			}
		}
	}
	return ro
}

func (e *Engine) globalInitInfo() *globalInit {
	e.ginitOnce.Do(func() {
		gi := &globalInit{objOf: map[*ssa.Global]*Object{}}
		e.ginit = gi
		initFn := e.ssaPkg.Func("init")
		if initFn == nil || len(initFn.Blocks) == 0 {
			return
		}
		ro := e.readonlyGlobals()
		u := e.newUnit(&Contract{Key: "init", Fn: initFn, Loops: map[int]*LoopContract{}, Unroll: map[int]int{}}, "")
		u.nextID = 1 << 28
		u.initMode = true
		u.initVals = map[*ssa.Global]Value{}
		u.initObjs = map[*ssa.Global]*Object{}
		u.inc = NewIncSolver()
		defer u.inc.Close()
		st := newState()
		var outs []Outcome
		func() {
			defer func() {
				if r := recover(); r != nil {
					gi.note = fmt.Sprint(r)
				}
			}()
			fr := u.newFrame(initFn, nil, 0, st)
			fr.top = true
			outs = u.enter(st, fr, initFn.Blocks[0])
		}()
		if len(outs) != 1 || len(u.unsup) > 0 || u.aborted != "" {
			gi.note += fmt.Sprintf(" init not fully executed (outcomes=%d unsupported=%v %s)", len(outs), u.unsup, u.aborted)
			gi.st = newState()
			return
		}
		gi.st = outs[0].st
		for g, o := range u.initObjs {
			if !ro[g] || isErrorType(g.Type().(*types.Pointer).Elem()) {
				continue
			}
			o.fresh = false
			gi.objOf[g] = o
		}
		if os.Getenv("GOVC_PATHS") != "" {
			fmt.Fprintf(os.Stderr, "  [init] note=%q unsup=%v aborted=%q vals=%d tables=%d\n", gi.note, u.unsup, u.aborted, len(u.initVals), len(gi.objOf))
		}
	})
	return e.ginit
}

func (e *Engine) noteAssumed(s string) {
	e.mu.Lock()
	e.assumed[s] = true
	e.mu.Unlock()
}

func LoadEngine(repo string) (*Engine, error) {
	cfg := &packages.Config{Mode: packages.LoadAllSyntax, Dir: repo, BuildFlags: []string{"-tags=verif"},
		Env: append(os.Environ(), "GOFLAGS=-mod=mod", "GOPROXY=off", "GOSUMDB=off", "GOTOOLCHAIN=local")}
	pkgs, err := packages.Load(cfg, ".")
	if err != nil {
		return nil, err
	}
	if len(pkgs) != 1 {
		return nil, fmt.Errorf("expected one package, got %d", len(pkgs))
	}
	if len(pkgs[0].Errors) > 0 {
		var ss []string
		for _, e := range pkgs[0].Errors {
			ss = append(ss, e.Error())
		}
		return nil, fmt.Errorf("package does not compile with -tags verif:\n  %s", strings.Join(ss, "\n  "))
	}
	prog, spkgs := ssautil.AllPackages(pkgs, ssa.NaiveForm|ssa.GlobalDebug)
	prog.Build()
	e := &Engine{repo: repo, prog: prog, fset: prog.Fset, pkg: pkgs[0], ssaPkg: spkgs[0], fns: map[string]*ssa.Function{},
		contracts: map[string]*Contract{}, typeIDs: map[string]int{}, globIDs: map[*ssa.Global]int{}, impls: map[string][]types.Type{},
		wsum: map[*ssa.Function][]bool{}, assumed: map[string]bool{}}
	for fn := range ssautil.AllFunctions(prog) {
		if fn.Pkg == e.ssaPkg || (fn.Pkg == nil && pkgPathOf(fn) == rtcpPath) {
			if fn.Synthetic == "" || strings.HasPrefix(fn.Synthetic, "package init") {
				e.fns[fnKey(fn)] = fn
			}
		}
	}
	// contracts
	for _, f := range pkgs[0].Syntax {
		name := filepath.Base(e.fset.Position(f.Pos()).Filename)
		if !strings.HasPrefix(name, "verif_") {
			continue
		}
		cts, err := parseContractComments(e.fset, f)
		if err != nil {
			return nil, fmt.Errorf("%s: %v", name, err)
		}
		if e.headerKeys == nil {
			e.headerKeys = map[string]bool{}
		}
		for _, ct := range cts {
			if k := headerKey(ct.Header); k != "" {
				e.headerKeys[k] = true
			}
		}
		for _, ct := range cts {
			if err := e.resolveHeader(ct); err != nil {
				if strings.HasPrefix(err.Error(), "contract for unknown function") && unexportedFuncKey(ct.Key) {
					// an unexported helper that no longer exists (inlined into its callers, or deleted): its contract
					// has nothing left to speak about; the callers' own clauses are proved on the code as it is now
					e.renameNotes = append(e.renameNotes, fmt.Sprintf("contract of %s dropped: the unexported function no longer exists", ct.Key))
					continue
				}
				e.addLoadErr(ct, err.Error())
				continue
			}
			if _, dup := e.contracts[ct.Key]; dup {
				e.addLoadErr(ct, "duplicate contract for "+ct.Key)
				continue
			}
			e.contracts[ct.Key] = ct
			e.order = append(e.order, ct)
		}
	}
	for _, ct := range e.order {
		if err := e.bindContract(ct); err != nil {
			ct.Broken = err.Error()
			e.addLoadErr(ct, err.Error())
		}
	}
	return e, nil
}

func (e *Engine) typeID(t types.Type) int {
	e.mu.Lock()
	defer e.mu.Unlock()
	k := types.TypeString(t, nil)
	if id, ok := e.typeIDs[k]; ok {
		return id
	}
	id := len(e.typeIDs) + 1
	e.typeIDs[k] = id
	return id
}

func (e *Engine) globalID(g *ssa.Global) int {
	e.mu.Lock()
	defer e.mu.Unlock()
	if id, ok := e.globIDs[g]; ok {
		return id
	}
	id := len(e.globIDs) + 1
	e.globIDs[g] = id
	return id
}

// implementers: the closed world of dynamic types for an interface type — all named types of package rtcp
// (and pointers to them) whose method set implements it.
func (e *Engine) implementers(it types.Type) []types.Type {
	k := types.TypeString(it, nil)
	e.mu.Lock()
	if r, ok := e.impls[k]; ok {
		e.mu.Unlock()
		return r
	}
	e.mu.Unlock()
	iface, ok := it.Underlying().(*types.Interface)
	if !ok {
		return nil
	}
	var out []types.Type
	scope := e.pkg.Types.Scope()
	names := scope.Names()
	sort.Strings(names)
	for _, n := range names {
		tn, ok := scope.Lookup(n).(*types.TypeName)
		if !ok || tn.IsAlias() {
			continue
		}
		if _, isIface := tn.Type().Underlying().(*types.Interface); isIface {
			continue
		}
		if types.Implements(tn.Type(), iface) {
			out = append(out, tn.Type())
		} else if pt := types.NewPointer(tn.Type()); types.Implements(pt, iface) {
			out = append(out, pt)
		}
	}
	e.mu.Lock()
	e.impls[k] = out
	e.mu.Unlock()
	return out
}

// writeSummary: per parameter (receiver first), whether the function may write memory reachable from it.
func (e *Engine) writeSummary(fn *ssa.Function) []bool {
	e.mu.Lock()
	if r, ok := e.wsum[fn]; ok {
		e.mu.Unlock()
		return r
	}
	res := make([]bool, len(fn.Params))
	e.wsum[fn] = res // provisional (recursion)
	e.mu.Unlock()
	if ct := e.contracts[fnKey(fn)]; ct != nil {
		for _, i := range ct.ModifiesIdx {
			res[i] = true
		}
		return res
	}
	if len(fn.Blocks) == 0 {
		// unknown external: assume it writes through pointer and slice arguments unless known pure
		pure := map[string]bool{"fmt.Sprintf": true, "fmt.Sprint": true, "fmt.Errorf": true, "bytes.Equal": true, "math.Floor": true, "math.Ceil": true, "math.Trunc": true, "math.Round": true, "math.RoundToEven": true,
			"math.Float32frombits": true, "strings.ReplaceAll": true, "strings.TrimSuffix": true, "errors.New": true}
		if !pure[fn.String()] {
			for i := range res {
				res[i] = true
			}
		}
		return res
	}
	paramIdx := map[ssa.Value]int{}
	for i, p := range fn.Params {
		paramIdx[p] = i
	}
	// derive: which values are (derived from) which parameter; params are stored to cells in naive form
	cellOf := map[*ssa.Alloc]int{}
	for _, b := range fn.Blocks {
		for _, in := range b.Instrs {
			if s, ok := in.(*ssa.Store); ok {
				if a, ok := s.Addr.(*ssa.Alloc); ok {
					if i, ok := paramIdx[s.Val]; ok {
						cellOf[a] = i
					}
				}
			}
		}
	}
	var from func(v ssa.Value, depth int) (int, bool)
	from = func(v ssa.Value, depth int) (int, bool) {
		if depth > 20 {
			return 0, false
		}
		if i, ok := paramIdx[v]; ok {
			return i, true
		}
		switch x := v.(type) {
		case *ssa.UnOp:
			if a, ok := x.X.(*ssa.Alloc); ok {
				if i, ok := cellOf[a]; ok {
					return i, true
				}
				return 0, false
			}
			return from(x.X, depth+1)
		case *ssa.FieldAddr:
			return from(x.X, depth+1)
		case *ssa.IndexAddr:
			return from(x.X, depth+1)
		case *ssa.Slice:
			return from(x.X, depth+1)
		case *ssa.ChangeType:
			return from(x.X, depth+1)
		}
		return 0, false
	}
	for _, b := range fn.Blocks {
		for _, in := range b.Instrs {
			switch s := in.(type) {
			case *ssa.Store:
				if _, isCell := s.Addr.(*ssa.Alloc); isCell {
					continue
				}
				if i, ok := from(s.Addr, 0); ok {
					res[i] = true
				}
			case *ssa.Call:
				c := s.Common()
				if bi, ok := c.Value.(*ssa.Builtin); ok {
					if bi.Name() == "copy" || bi.Name() == "append" {
						if i, ok := from(c.Args[0], 0); ok {
							res[i] = true
						}
					}
					continue
				}
				var cws []bool
				args := c.Args
				if c.IsInvoke() {
					// any implementer: conservatively all arguments
					for _, a := range append([]ssa.Value{c.Value}, args...) {
						if i, ok := from(a, 0); ok {
							res[i] = true
						}
					}
					continue
				}
				if callee := c.StaticCallee(); callee != nil {
					cws = e.writeSummary(callee)
					for j, a := range args {
						if j < len(cws) && cws[j] {
							if i, ok := from(a, 0); ok {
								res[i] = true
							}
						}
					}
				}
			}
		}
	}
	return res
}

// funcDeclOf returns the syntax of a function.
func funcDeclOf(fn *ssa.Function) *ast.FuncDecl {
	fd, _ := fn.Syntax().(*ast.FuncDecl)
	return fd
}

// headerKey: the function key a contract header names ("(*T).M", "(T).M" or "f"), without resolving it.
func headerKey(header string) string {
	f, err := parser.ParseFile(token.NewFileSet(), "", "package p\n"+header+" {}", 0)
	if err != nil || len(f.Decls) == 0 {
		return ""
	}
	fd, ok := f.Decls[0].(*ast.FuncDecl)
	if !ok {
		return ""
	}
	key := fd.Name.Name
	if fd.Recv != nil && len(fd.Recv.List) == 1 {
		rt := fd.Recv.List[0].Type
		ptr := false
		if se, ok := rt.(*ast.StarExpr); ok {
			ptr = true
			rt = se.X
		}
		if id, ok := rt.(*ast.Ident); ok {
			if ptr {
				key = "(*" + id.Name + ")." + fd.Name.Name
			} else {
				key = "(" + id.Name + ")." + fd.Name.Name
			}
		}
	}
	return key
}

// unexportedFuncKey: the function or method name in a key like "(*T).name" or "name" starts with a lower-case letter.
func unexportedFuncKey(key string) bool {
	name := key
	if i := strings.LastIndex(key, "."); i >= 0 {
		name = key[i+1:]
	}
	return name != "" && name[0] >= 'a' && name[0] <= 'z'
}
