package main

// Evaluation of contract expressions (Go expressions + spec built-ins) over symbolic states.

import (
	"fmt"
	"go/ast"
	"go/token"
	"go/types"

	"golang.org/x/tools/go/ssa"
)

type Env struct {
	hyp   bool          // the clause is being assumed (not proved): seqEq registers a quantified hypothesis
	lazy  bool          // inside a lazily instantiated hypothesis
	vars  map[int]Value // placeholder bindings: results then binders
	u     *Unit
	st    *State
	fr    *Frame // for locals (invariants); nil at function boundaries
	objs  map[types.Object]Value
	entry *State // state at function entry (old)
	eargs map[types.Object]Value
	snap  *State // state at loop entry (unchanged)
	head  *ssa.BasicBlock // header of the loop whose clause is being evaluated (nil outside loop clauses)
	inner *Frame          // frame of the inlined helper that contains the loop (floating loop contracts)
	cells map[token.Pos]*ssa.Alloc
	multi map[token.Pos][]*ssa.Alloc // several cells per position (type-switch variables: one per case clause)
	ct    *Contract
}

type specPanic struct{ msg string }

func specFail(format string, a ...interface{}) { panic(specPanic{fmt.Sprintf(format, a...)}) }

func (u *Unit) cellsOf(fn *ssa.Function) map[token.Pos]*ssa.Alloc {
	if m, ok := u.cellTab[fn]; ok {
		return m
	}
	m := map[token.Pos]*ssa.Alloc{}
	mm := map[token.Pos][]*ssa.Alloc{}
	for _, b := range fn.Blocks {
		for _, in := range b.Instrs {
			if a, ok := in.(*ssa.Alloc); ok && a.Pos().IsValid() {
				m[a.Pos()] = a
				mm[a.Pos()] = append(mm[a.Pos()], a)
			}
		}
	}
	u.cellTab[fn] = m
	u.cellMulti[fn] = mm
	return m
}

func (u *Unit) paramEnv(st *State, fn *ssa.Function, args []Value, entry *State) *Env {
	env := &Env{u: u, st: st, objs: map[types.Object]Value{}, entry: entry, eargs: map[types.Object]Value{}}
	for i, p := range fn.Params {
		if p.Object() != nil && i < len(args) {
			env.objs[p.Object()] = args[i]
			env.eargs[p.Object()] = args[i]
		}
	}
	return env
}

func (u *Unit) invEnv(st *State, fr *Frame, b *ssa.BasicBlock) *Env {
	if !fr.top && fr.caller != nil {
		top := fr.caller
		for top != nil && !top.top {
			top = top.caller
		}
		if lc := u.loopContract(fr, b); top != nil && lc != nil && lc.floating {
			// clauses written for the function under contract, loop now in an inlined helper: identifiers resolve in the
			// function's frame, except that a local of the helper with the same name and type takes precedence
			env := u.invEnv(st, top, nil)
			env.inner = fr
			env.snap = fr.loopSnap[b]
			env.head = b
			return env
		}
	}
	env := u.paramEnv(st, fr.fn, fr.entryArgs, fr.entrySt)
	env.fr = fr
	env.cells = u.cellsOf(fr.fn)
	env.multi = u.cellMulti[fr.fn]
	env.snap = fr.loopSnap[b]
	env.head = b
	// parameters live in cells in naive form: invariants see the current value
	for _, p := range fr.fn.Params {
		if p.Object() != nil {
			if _, ok := env.cells[p.Object().Pos()]; ok {
				delete(env.objs, p.Object())
			}
		}
	}
	return env
}

func (env *Env) bindResults(cl *Clause, ct *Contract, ret Value) {
	var vals []Value
	if tv, ok := ret.(TupleV); ok {
		vals = tv
	} else if ret != nil {
		vals = []Value{ret}
	}
	if env.vars == nil {
		env.vars = map[int]Value{}
	}
	for i, v := range vals {
		env.vars[i] = v
	}
}

func (env *Env) lookup(obj types.Object, name string) Value {
	if v, ok := env.objs[obj]; ok {
		return v
	}
	if env.inner != nil {
		if _, isVar := obj.(*types.Var); isVar {
			for v, p := range env.inner.regs {
				a, ok := v.(*ssa.Alloc)
				if !ok || a.Comment != name || !types.Identical(a.Type().(*types.Pointer).Elem(), obj.Type()) {
					continue
				}
				if env.head != nil && a == env.u.rangeKeyCell(env.head) {
					if iv, ok := env.u.iterValue(env.st, env.inner, env.head); ok {
						return iv
					}
				}
				val, _ := env.u.load(env.st, env.inner, p, nil)
				return val
			}
		}
	}
	if env.fr != nil {
		if a, ok := env.cells[obj.Pos()]; ok {
			// the key variable of a range loop, read at the loop's cut point, is the index of the next iteration
			// (what the same variable holds at the head of the equivalent `for i := 0; i < n; i++` loop)
			if env.head != nil && a == env.u.rangeKeyCell(env.head) {
				if iv, ok := env.u.iterValue(env.st, env.fr, env.head); ok {
					return iv
				}
			}
			if p, ok := env.fr.regs[a]; ok {
				v, _ := env.u.load(env.st, env.fr, p, nil)
				return v
			}
			for _, a2 := range env.multi[obj.Pos()] {
				if p, ok := env.fr.regs[a2]; ok && types.Identical(a2.Type().(*types.Pointer).Elem(), obj.Type()) {
					v, _ := env.u.load(env.st, env.fr, p, nil)
					return v
				}
			}
			specFail("local %s is not in scope at this cut point", name)
		}
	}
	if v, ok := obj.(*types.Var); ok && v.Pkg() != nil && v.Parent() == v.Pkg().Scope() {
		// package-level variable (error sentinels)
		if g, ok := env.u.eng.ssaPkg.Members[v.Name()].(*ssa.Global); ok {
			val, ok := env.u.loadGlobal(env.st, g)
			if ok {
				return val
			}
		}
	}
	specFail("unbound identifier %s", name)
	return nil
}

func isNilIdent(ex ast.Expr) bool {
	id, ok := ex.(*ast.Ident)
	return ok && id.Name == "nil"
}

func (env *Env) eval(cl *Clause, ex ast.Expr) Value {
	u, st := env.u, env.st
	u.specMode++
	defer func() { u.specMode-- }()
	tv := cl.Info.Types[ex]
	if tv.Value != nil {
		return u.constVal(st, tv.Type, tv.Value)
	}
	switch x := ex.(type) {
	case *ast.ParenExpr:
		return env.eval(cl, x.X)
	case *ast.Ident:
		if x.Name == "nil" {
			return u.zero(st, tv.Type)
		}
		if x.Name == "true" || x.Name == "false" {
			return BoolV{BoolK(x.Name == "true")}
		}
		obj := cl.Info.Uses[x]
		if obj == nil {
			specFail("unresolved identifier %s", x.Name)
		}
		return env.lookup(obj, x.Name)
	case *ast.UnaryExpr:
		v := env.eval(cl, x.X)
		switch x.Op {
		case token.NOT:
			return BoolV{Not(v.(BoolV).T)}
		case token.SUB:
			switch a := v.(type) {
			case IntV:
				if a.T.IsInt() {
					return IntV{IntNeg(a.T), true}
				}
				return IntV{BVNeg(a.T), a.Signed}
			case FloatV:
				return FloatV{FPNeg(a.T), a.Bits}
			}
		case token.XOR:
			a := v.(IntV)
			return IntV{BVNot(a.T), a.Signed}
		case token.AND:
			return v // &x in specs: only to pass composite values to spec functions taking pointers (unsupported otherwise)
		}
	case *ast.BinaryExpr:
		if x.Op == token.LAND || x.Op == token.LOR {
			a := env.eval(cl, x.X).(BoolV)
			// short circuit on a literal left operand (isType guards of by-cases contracts)
			if x.Op == token.LAND && a.T.IsFalse() {
				return BoolV{False}
			}
			if x.Op == token.LOR && a.T.IsTrue() {
				return BoolV{True}
			}
			b := env.eval(cl, x.Y).(BoolV)
			if x.Op == token.LAND {
				return BoolV{And(a.T, b.T)}
			}
			return BoolV{Or(a.T, b.T)}
		}
		var a, b Value
		switch {
		case isNilIdent(x.Y):
			a = env.eval(cl, x.X)
			b = u.zero(st, cl.Info.Types[x.X].Type)
		case isNilIdent(x.X):
			b = env.eval(cl, x.Y)
			a = u.zero(st, cl.Info.Types[x.Y].Type)
		default:
			a, b = env.eval(cl, x.X), env.eval(cl, x.Y)
		}
		if x.Op == token.EQL || x.Op == token.NEQ {
			if eq, ok := u.valueEq(st, a, b); ok {
				if x.Op == token.NEQ {
					eq = Not(eq)
				}
				return BoolV{eq}
			}
		}
		u.specMode++
		v, ok := u.binop(st, nil, x.Op, a, b, nil)
		u.specMode--
		if !ok {
			specFail("binary %s on %T, %T", x.Op, a, b)
		}
		return v
	case *ast.StarExpr:
		v, ok := u.load(st, env.fr, env.eval(cl, x.X), nil)
		if !ok {
			specFail("dereference in spec")
		}
		return v
	case *ast.SelectorExpr:
		sel := cl.Info.Selections[x]
		if sel == nil {
			// qualified identifier (pkg.Name): constants are handled above
			specFail("unsupported qualified identifier %s", x.Sel.Name)
		}
		base := env.eval(cl, x.X)
		if sel.Kind() != types.FieldVal {
			specFail("method values are not supported in specs (%s)", x.Sel.Name)
		}
		cur := cl.Info.Types[x.X].Type
		for _, i := range sel.Index() {
			switch p := base.(type) {
			case PtrV, ElemPtr:
				v, ok := u.load(st, env.fr, p, nil)
				if !ok {
					specFail("nil dereference in spec selector")
				}
				base = v
			}
			if pt, ok := cur.Underlying().(*types.Pointer); ok {
				cur = pt.Elem()
			}
			sv, ok := base.(StructV)
			if !ok {
				specFail("selector on %T", base)
			}
			base = sv.F[i]
			cur = cur.Underlying().(*types.Struct).Field(i).Type()
		}
		return base
	case *ast.IndexExpr:
		if ftv, ok := cl.Info.Types[x.X]; ok {
			if _, isSig := ftv.Type.(*types.Signature); isSig {
				// explicit generic instantiation f[T]
				return env.eval(cl, x.X)
			}
		}
		bv := env.eval(cl, x.X)
		iv := env.eval(cl, x.Index).(IntV)
		it := toInt(iv)
		u.specMode++
		defer func() { u.specMode-- }()
		switch s := bv.(type) {
		case SliceV:
			et := cl.Info.Types[x.X].Type.Underlying().(*types.Slice).Elem()
			if s.R == nil {
				return u.havoc(st, et, "oob")
			}
			v, ok := u.readRegion(st, s.R, IntAdd(s.Off, it), "", et)
			if !ok {
				specFail("slice index in spec")
			}
			return v
		case StringV:
			if s.R == nil {
				return u.havoc(st, types.Typ[types.Uint8], "oob")
			}
			v, ok := u.readRegion(st, s.R, IntAdd(s.Off, it), "", types.Typ[types.Uint8])
			if !ok {
				specFail("string index in spec")
			}
			return v
		case ArrayV:
			et := cl.Info.Types[x.X].Type.Underlying().(*types.Array).Elem()
			v, ok := u.readRegion(st, s.R, it, "", et)
			if !ok {
				specFail("array index in spec")
			}
			return v
		}
		specFail("index on %T", bv)
	case *ast.SliceExpr:
		bv := env.eval(cl, x.X)
		var lo, hi *Term
		if x.Low != nil {
			lo = toInt(env.eval(cl, x.Low).(IntV))
		}
		if x.High != nil {
			hi = toInt(env.eval(cl, x.High).(IntV))
		}
		switch s := bv.(type) {
		case SliceV:
			if lo == nil {
				lo = IntK(0)
			}
			if hi == nil {
				hi = s.Len
			}
			return SliceV{s.R, IntAdd(s.Off, lo), IntSub(hi, lo), IntSub(s.Cap, lo)}
		case StringV:
			if lo == nil {
				lo = IntK(0)
			}
			if hi == nil {
				hi = s.Len
			}
			return StringV{R: s.R, Off: IntAdd(s.Off, lo), Len: IntSub(hi, lo)}
		}
		specFail("slice expression on %T", bv)
	case *ast.CompositeLit:
		t := cl.Info.Types[x].Type
		if stt, ok := t.Underlying().(*types.Struct); ok {
			sv := u.zero(st, t).(StructV)
			for i, el := range x.Elts {
				if kv, ok := el.(*ast.KeyValueExpr); ok {
					name := kv.Key.(*ast.Ident).Name
					for j := 0; j < stt.NumFields(); j++ {
						if stt.Field(j).Name() == name {
							sv.F[j] = env.eval(cl, kv.Value)
						}
					}
				} else {
					sv.F[i] = env.eval(cl, el)
				}
			}
			return sv
		}
		specFail("composite literal of %s", t)
	case *ast.CallExpr:
		return env.evalCall(cl, x)
	}
	specFail("unsupported expression %T", ex)
	return nil
}

func (env *Env) evalCall(cl *Clause, x *ast.CallExpr) Value {
	u, st := env.u, env.st
	ftv := cl.Info.Types[x.Fun]
	if ftv.IsType() { // conversion
		v := env.eval(cl, x.Args[0])
		u.specMode++
		r, ok := u.convert(st, nil, v, cl.Info.Types[x.Args[0]].Type, ftv.Type, nil)
		u.specMode--
		if !ok {
			specFail("conversion to %s", ftv.Type)
		}
		return r
	}
	fun := x.Fun
	if ie, ok := fun.(*ast.IndexExpr); ok {
		fun = ie.X
	}
	id, ok := fun.(*ast.Ident)
	if !ok {
		specFail("unsupported call in spec")
	}
	if i, ok := specVarIndex(x); ok {
		if name, isFloat := cl.FloatNames[i]; isFloat {
			// a local of the helper that now contains the loop (extracted loop), resolved by name in its frame
			if env.inner == nil {
				specFail("local %s of an extracted loop is not in scope here", name)
			}
			for v, p := range env.inner.regs {
				a, ok := v.(*ssa.Alloc)
				if !ok || a.Comment != name {
					continue
				}
				if env.head != nil && a == env.u.rangeKeyCell(env.head) {
					if iv, ok := env.u.iterValue(env.st, env.inner, env.head); ok {
						return iv
					}
				}
				val, _ := env.u.load(env.st, env.inner, p, nil)
				return val
			}
			specFail("local %s of the helper is not live at this cut point", name)
		}
		v, bound := env.vars[i]
		if !bound {
			specFail("placeholder %d is not bound here", i)
		}
		return v
	}
	switch id.Name {
	case "iter":
		if env.fr == nil {
			specFail("iter() outside a loop")
		}
		lf, hb := env.fr, env.snapBlock()
		if env.inner != nil {
			lf, hb = env.inner, env.head
		}
		if iv, ok := u.iterValue(st, lf, hb); ok {
			return iv
		}
		specFail("iter(): neither a range loop nor a loop with a single counter incremented once per iteration")
	case "old":
		if env.entry == nil {
			specFail("old() without entry state")
		}
		o := &Env{u: u, st: env.entry, objs: map[types.Object]Value{}, entry: env.entry, eargs: env.eargs, ct: env.ct, vars: env.vars}
		for k, v := range env.objs {
			o.objs[k] = v
		}
		for k, v := range env.eargs {
			o.objs[k] = v
		}
		return o.eval(cl, x.Args[0])
	case "before": // value of an expression at the entry of the enclosing annotated loop
		if env.snap == nil {
			specFail("before() outside a loop")
		}
		o := *env
		o.st = env.snap
		return o.eval(cl, x.Args[0])
	case "unchanged":
		if env.snap == nil {
			specFail("unchanged() outside a loop")
		}
		cur := env.eval(cl, x.Args[0])
		o := *env
		o.st = env.snap
		was := o.eval(cl, x.Args[0])
		if cf, ok := cur.(FloatV); ok { // bit-identical, not IEEE ==
			if wf, ok := was.(FloatV); ok {
				return BoolV{Eq(cf.T, wf.T)}
			}
		}
		eq, ok := u.valueEq(st, cur, was)
		if !ok {
			specFail("unchanged(): incomparable values")
		}
		return BoolV{eq}
	case "allocated":
		return IntV{st.alloc, true}
	case "len":
		switch s := env.eval(cl, x.Args[0]).(type) {
		case SliceV:
			return IntV{s.Len, true}
		case StringV:
			return IntV{s.Len, true}
		case ArrayV:
			return IntV{IntK(s.N), true}
		}
	case "cap":
		if s, ok := env.eval(cl, x.Args[0]).(SliceV); ok {
			return IntV{s.Cap, true}
		}
	case "seqEq":
		return BoolV{env.seqEq(cl, x.Args[0], x.Args[1])}
	case "isFresh":
		switch s := env.eval(cl, x.Args[0]).(type) {
		case SliceV:
			return BoolV{BoolK(s.R == nil || s.R.fresh)}
		}
	case "sameSlice":
		a, aok := env.eval(cl, x.Args[0]).(SliceV)
		b, bok := env.eval(cl, x.Args[1]).(SliceV)
		if aok && bok {
			return BoolV{And(BoolK(a.R == b.R), Eq(a.Off, b.Off), Eq(a.Len, b.Len))}
		}
	case "isSuffix": // a is a suffix of b (same backing array, same end)
		a, aok := env.eval(cl, x.Args[0]).(SliceV)
		b, bok := env.eval(cl, x.Args[1]).(SliceV)
		if aok && bok {
			if a.R != b.R {
				return BoolV{And(Eq(a.Len, IntK(0)), Eq(b.Len, IntK(0)))}
			}
			return BoolV{And(IntLe(b.Off, a.Off), Eq(IntAdd(a.Off, a.Len), IntAdd(b.Off, b.Len)))}
		}
	case "traceBytes": // first []byte argument of the k-th recorded call (contract calls and callbacks)
		k := env.eval(cl, x.Args[0]).(IntV)
		if k.T.C != nil && k.T.C.Sign() >= 0 && int(k.T.C.Int64()) < len(st.trace) {
			for _, a := range st.trace[k.T.C.Int64()].args {
				if sl, ok := a.(SliceV); ok {
					return sl
				}
			}
		}
		return u.havoc(st, cl.Info.Types[x].Type, "tracebytes")
	case "isType":
		v := env.eval(cl, x.Args[0])
		T := cl.Info.Types[x.Args[1]].Type
		switch iv := v.(type) {
		case IfaceV:
			return BoolV{BoolK(iv.Typ != nil && types.Identical(iv.Typ, T))}
		case SymIface:
			return BoolV{Eq(iv.Tag, IntK(int64(u.eng.typeID(T))))}
		}
	case "dyn": // dyn(p, (*T)(nil)): the value of p asserted to *T (arbitrary if the type differs)
		v := env.eval(cl, x.Args[0])
		T := cl.Info.Types[x.Args[1]].Type
		switch iv := v.(type) {
		case IfaceV:
			if iv.Typ != nil && types.Identical(iv.Typ, T) {
				return iv.V
			}
			return u.havoc(st, T, "dyn")
		case SymIface:
			return u.readElem(st, iv.R, iv.Idx, iv.Path+"@"+relType(T), T)
		}
	case "ncalls": // contract calls and callbacks recorded so far (concrete ghost trace)
		return IntV{IntK(int64(len(st.trace))), true}
	case "cbcalls": // number of calls through the unknown callback so far (symbolic trace)
		if st.tlen == nil {
			return IntV{IntK(0), true}
		}
		return IntV{st.tlen, true}
	case "cbArg":
		k := toInt(env.eval(cl, x.Args[0]).(IntV))
		T := cl.Info.Types[x].Type
		srt, sg, _ := intSort(T)
		if st.targ == nil || st.targ.sort() != srt {
			return IntV{Fresh("cbarg", srt), sg}
		}
		return IntV{st.targ.read(k), sg}
	case "cbRet":
		k := toInt(env.eval(cl, x.Args[0]).(IntV))
		if st.tret == nil {
			return BoolV{Fresh("cbret", SortBool)}
		}
		return BoolV{st.tret.read(k)}
	case "ite":
		c := env.eval(cl, x.Args[0]).(BoolV).T
		a, b := env.eval(cl, x.Args[1]), env.eval(cl, x.Args[2])
		m, ok := mergeValues(c, a, b)
		if !ok {
			specFail("ite(): cannot merge %T and %T", a, b)
		}
		return m
	case "min", "max":
		a, b := env.eval(cl, x.Args[0]).(IntV), env.eval(cl, x.Args[1]).(IntV)
		u.specMode++
		lt, _ := u.intBin(st, nil, token.LSS, a, b, nil)
		u.specMode--
		c := lt.(BoolV).T
		if id.Name == "max" {
			c = Not(c)
		}
		return IntV{Ite(c, a.T, b.T), a.Signed}
	}
	if fobj, ok := cl.Info.Uses[id].(*types.Func); ok { // ghost / pure function: executed symbolically
		fn := u.eng.prog.FuncValue(fobj)
		if fn == nil {
			specFail("no SSA for %s", fobj.Name())
		}
		if inst, ok := cl.Info.Instances[id]; ok && fn.TypeParams().Len() > 0 {
			_ = inst
			specFail("generic spec functions are built-ins only (%s)", id.Name)
		}
		var args []Value
		sig := fobj.Type().(*types.Signature)
		for i, a := range x.Args {
			v := env.eval(cl, a)
			// implicit conversion of a concrete argument to an interface parameter
			if i < sig.Params().Len() {
				if _, isIface := sig.Params().At(i).Type().Underlying().(*types.Interface); isIface {
					at := cl.Info.Types[a].Type
					if _, argIface := at.Underlying().(*types.Interface); !argIface && at != nil {
						if _, already := v.(IfaceV); !already {
							if _, sym := v.(SymIface); !sym {
								v = IfaceV{Typ: at, V: v}
							}
						}
					}
				}
			}
			args = append(args, v)
		}
		return u.specCall(st, fn, args)
	}
	specFail("unsupported call %s in spec", id.Name)
	return nil
}

// define records a definitional fact (an unfolding equation or an ordering fact of a ghost function application):
// it holds in every state, so specCall carries it from the sub-execution back to the calling state.
func (st *State) define(f *Term) {
	st.assume(f)
	st.defs = append(st.defs, f)
}

// adoptDefs copies the definitional facts discovered in a sub-execution that started from st.
func (st *State) adoptDefs(sub *State) {
	for _, f := range sub.defs[min(len(st.defs), len(sub.defs)):] {
		st.define(f)
	}
	for _, ra := range sub.recApps[min(len(st.recApps), len(sub.recApps)):] {
		st.recApps = append(st.recApps, ra)
	}
}

// specCall executes a ghost function symbolically (total semantics, no obligations) and merges its paths.
func (u *Unit) specCall(st *State, fn *ssa.Function, args []Value) Value {
	if ct := u.eng.contracts[fnKey(fn)]; ct != nil && ct.Rec {
		return u.recCall(st, fn, args)
	}
	u.specMode++
	defer func() { u.specMode-- }()
	base := len(st.pc)
	s0 := st.clone()
	outs := u.callFn(s0, fn, args, nil, 1, "")
	if len(outs) == 0 {
		if !u.feasible(st) {
			// the path itself is infeasible (a contradictory path condition reaches this point because safety
			// obligations do not prune): any value will do, the obligation is vacuous
			return u.havoc(st, fn.Signature.Results().At(0).Type(), "infeasible")
		}
		specFail("spec function %s has no outcome (%v)", fn.Name(), sortedKeys(u.unsup))
	}
	// merge outcomes: each path's extra conditions select its value
	var acc Value
	if len(outs) == 1 {
		st.adoptDefs(outs[0].st)
	}
	for i := len(outs) - 1; i >= 0; i-- {
		o := outs[i]
		cond := True
		if len(o.st.pc) > base {
			cond = And(o.st.pc[base:]...)
		}
		if acc == nil {
			acc = o.ret
			continue
		}
		m, ok := mergeValues(cond, o.ret, acc)
		if !ok {
			specFail("spec function %s: cannot merge results of type %T", fn.Name(), o.ret)
		}
		acc = m
	}
	return acc
}

func (env *Env) snapBlock() *ssa.BasicBlock {
	for b, s := range env.fr.loopSnap {
		if s == env.snap {
			return b
		}
	}
	return nil
}

// iterValue: the number of completed iterations at the cut point of the loop with header h: the hidden index of a
// range loop plus one, or, for a three-clause loop, the distance its counter (the one cell that is stored exactly
// once per iteration, in the post block, as itself plus one) has moved since loop entry.
func (u *Unit) iterValue(st *State, fr *Frame, h *ssa.BasicBlock) (Value, bool) {
	if h == nil {
		return nil, false
	}
	for _, a := range u.rangeCells(fr.fn, h) {
		v, _ := u.load(st, fr, fr.regs[a], nil)
		return IntV{IntAdd(v.(IntV).T, IntK(1)), true}, true
	}
	c := u.counterCell(h)
	snap := fr.loopSnap[h]
	if c == nil || snap == nil {
		return nil, false
	}
	p, ok := fr.regs[c]
	if !ok {
		return nil, false
	}
	cur, ok1 := u.load(st, fr, p, nil)
	was, ok2 := u.load(snap, fr, p, nil)
	ci, ok3 := cur.(IntV)
	wi, ok4 := was.(IntV)
	if !ok1 || !ok2 || !ok3 || !ok4 || !ci.T.IsInt() || !wi.T.IsInt() {
		return nil, false
	}
	return IntV{IntSub(ci.T, wi.T), true}, true
}

// counterCell: the unique local of type int that the loop with header h stores exactly once, in its post block, as
// its own value plus one.
func (u *Unit) counterCell(h *ssa.BasicBlock) *ssa.Alloc {
	body := naturalLoop(h)
	stores := map[*ssa.Alloc][]*ssa.Store{}
	for b := range body {
		for _, in := range b.Instrs {
			if s, ok := in.(*ssa.Store); ok {
				if a, ok := s.Addr.(*ssa.Alloc); ok {
					stores[a] = append(stores[a], s)
				}
			}
		}
	}
	var found *ssa.Alloc
	for a, ss := range stores {
		if len(ss) != 1 {
			continue
		}
		bo, ok := ss[0].Val.(*ssa.BinOp)
		if !ok || bo.Op != token.ADD {
			continue
		}
		ld, ok := bo.X.(*ssa.UnOp)
		k, ok2 := bo.Y.(*ssa.Const)
		if !ok || !ok2 || ld.Op != token.MUL || ld.X != ssa.Value(a) || k.Value == nil || k.Value.ExactString() != "1" {
			continue
		}
		if bt, ok := a.Type().(*types.Pointer).Elem().Underlying().(*types.Basic); !ok || bt.Kind() != types.Int {
			continue
		}
		// the storing block must be executed exactly once per iteration: it is the only block of the loop that
		// jumps back to the header (the single latch), and it does nothing else afterwards
		lb := ss[0].Block()
		if len(lb.Succs) != 1 || lb.Succs[0] != h {
			continue
		}
		latches := 0
		for _, p := range h.Preds {
			if body[p] {
				latches++
			}
		}
		if latches != 1 {
			continue
		}
		if found != nil {
			return nil
		}
		found = a
	}
	return found
}

// rangeKeyCell: the key variable (`for i := range s`) of the range loop with header h, or nil.
func (u *Unit) rangeKeyCell(h *ssa.BasicBlock) *ssa.Alloc {
	var inc ssa.Value
	var ri *ssa.Alloc
	for _, in := range h.Instrs {
		if s, ok := in.(*ssa.Store); ok {
			if a, ok := s.Addr.(*ssa.Alloc); ok && a.Comment == "rangeindex" {
				inc, ri = s.Val, a
			}
		}
	}
	if inc == nil {
		return nil
	}
	for _, succ := range h.Succs {
		for _, in := range succ.Instrs {
			s, ok := in.(*ssa.Store)
			if !ok {
				continue
			}
			fromIndex := s.Val == inc
			if ld, ok := s.Val.(*ssa.UnOp); ok && ld.Op == token.MUL && ld.X == ssa.Value(ri) {
				fromIndex = true
			}
			if a, ok := s.Addr.(*ssa.Alloc); ok && fromIndex && a.Comment != "rangeindex" {
				return a
			}
		}
	}
	return nil
}

// rangeCells: the hidden rangeindex cell(s) of the range loop with header h.
func (u *Unit) rangeCells(fn *ssa.Function, h *ssa.BasicBlock) []*ssa.Alloc {
	var out []*ssa.Alloc
	if h == nil {
		return nil
	}
	body := naturalLoop(h)
	// the rangeindex alloc is stored to (index + 1) inside the loop header block
	for _, in := range h.Instrs {
		if s, ok := in.(*ssa.Store); ok {
			if a, ok := s.Addr.(*ssa.Alloc); ok && a.Comment == "rangeindex" {
				out = append(out, a)
			}
		}
	}
	_ = body
	return out
}

// seqEq: same length and same elements (nil ≡ empty).
func (env *Env) seqEq(cl *Clause, ea, eb ast.Expr) *Term {
	u, st := env.u, env.st
	a, b := env.eval(cl, ea), env.eval(cl, eb)
	get := func(v Value) (*Region, *Term, *Term, types.Type) {
		switch s := v.(type) {
		case SliceV:
			var et types.Type
			if s.R != nil {
				et = s.R.Elem
			}
			return s.R, s.Off, s.Len, et
		case StringV:
			return s.R, s.Off, s.Len, types.Typ[types.Uint8]
		}
		specFail("seqEq on %T", v)
		return nil, nil, nil, nil
	}
	ra, oa, la, ta := get(a)
	rb, ob, lb, tb := get(b)
	et := ta
	if et == nil {
		et = tb
	}
	if et == nil {
		return Eq(la, lb)
	}
	if env.hyp {
		if env.lazy {
			specFail("seqEq inside a quantified hypothesis")
		}
		// assumed: P stands for the equality; its element-wise part becomes a lazily instantiated hypothesis
		p := Fresh("seqeq", SortBool)
		st.assume(Implies(p, Eq(la, lb)))
		snap := st.clone()
		st.qh = append(st.qh, &QHyp{text: "seqEq", n: 1, sorts: []*Sort{SortInt}, inst: func(ks []*Term) *Term {
			k := ks[0]
			u.specMode++
			x, _ := u.readRegion(snap, ra, IntAdd(oa, k), "", et)
			y, _ := u.readRegion(snap, rb, IntAdd(ob, k), "", et)
			u.specMode--
			eq, ok := u.valueEq(snap, x, y)
			if !ok {
				return True
			}
			return Implies(p, Implies(And(IntLe(IntK(0), k), IntLt(k, la)), eq))
		}})
		return p
	}
	// as a goal the element index is a skolem
	sk := Fresh("sk_seq", SortInt)
	st.addInst(sk)
	u.specMode++
	x, _ := u.readRegion(st, ra, IntAdd(oa, sk), "", et)
	y, _ := u.readRegion(st, rb, IntAdd(ob, sk), "", et)
	u.specMode--
	eq, ok := u.valueEq(st, x, y)
	if !ok {
		specFail("seqEq: incomparable elements")
	}
	return And(Eq(la, lb), Implies(And(IntLe(IntK(0), sk), IntLt(sk, la)), eq))
}

// valueEq: structural equality of two symbolic values.
func (u *Unit) valueEq(st *State, a, b Value) (*Term, bool) {
	switch x := a.(type) {
	case IntV:
		y, ok := b.(IntV)
		if !ok {
			return nil, false
		}
		if x.T.Sort != y.T.Sort {
			if x.T.IsInt() && x.T.C != nil && y.T.IsBV() {
				return Eq(BVConst(x.T.C, y.T.W()), y.T), true
			}
			if y.T.IsInt() && y.T.C != nil && x.T.IsBV() {
				return Eq(x.T, BVConst(y.T.C, x.T.W())), true
			}
			return nil, false
		}
		return Eq(x.T, y.T), true
	case BoolV:
		y, ok := b.(BoolV)
		if !ok {
			return nil, false
		}
		return Eq(x.T, y.T), true
	case FloatV:
		y, ok := b.(FloatV)
		if !ok {
			return nil, false
		}
		return FPCmp("fp.eq", x.T, y.T), true
	case StructV:
		y, ok := b.(StructV)
		if !ok || len(x.F) != len(y.F) {
			return nil, false
		}
		c := True
		for i := range x.F {
			e, ok := u.valueEq(st, x.F[i], y.F[i])
			if !ok {
				return nil, false
			}
			c = And(c, e)
		}
		return c, true
	case ErrV:
		y, ok := b.(ErrV)
		if !ok {
			return nil, false
		}
		if y.Nil.IsTrue() {
			return x.Nil, true
		}
		if x.Nil.IsTrue() {
			return y.Nil, true
		}
		return And(Eq(x.Nil, y.Nil), Or(x.Nil, Eq(x.ID, y.ID))), true
	case SliceV:
		y, ok := b.(SliceV)
		if !ok {
			return nil, false
		}
		if x.R == nil && y.R == nil {
			return True, true
		}
		if x.R == nil {
			return Eq(y.Len, IntK(0)), true // nil ≡ empty in specifications
		}
		if y.R == nil {
			return Eq(x.Len, IntK(0)), true
		}
		if x.R == y.R {
			return And(Eq(x.Off, y.Off), Eq(x.Len, y.Len)), true
		}
		return And(Eq(x.Len, IntK(0)), Eq(y.Len, IntK(0))), true // identity: different backing arrays
	case StringV:
		y, ok := b.(StringV)
		if !ok {
			return nil, false
		}
		return u.bytesEqual(st, x.R, x.Off, x.Len, y.R, y.Off, y.Len), true
	case IfaceV:
		if y, ok := b.(IfaceV); ok {
			if x.Typ == nil || y.Typ == nil {
				return BoolK(x.Typ == nil && y.Typ == nil), true
			}
		}
		if y, ok := b.(SymIface); ok && x.Typ == nil {
			return Eq(y.Tag, IntK(0)), true
		}
	case SymIface:
		if y, ok := b.(IfaceV); ok && y.Typ == nil {
			return Eq(x.Tag, IntK(0)), true
		}
		if y, ok := b.(SymIface); ok {
			if x.R == y.R && x.Idx == y.Idx && x.Path == y.Path {
				return True, true
			}
			return Eq(x.Tag, y.Tag), true
		}
	case ElemPtr:
		if y, ok := b.(ElemPtr); ok {
			return And(BoolK(x.R == y.R && x.Path == y.Path), Eq(x.Idx, y.Idx)), true
		}
	case PtrV:
		if y, ok := b.(PtrV); ok {
			return BoolK(x.Obj == y.Obj && fmt.Sprint(x.Path) == fmt.Sprint(y.Path)), true
		}
	}
	return nil, false
}

// formula evaluates a clause to a Bool term. asGoal: binders are skolemised; otherwise the clause is
// registered as a lazily instantiated hypothesis (and True is returned) when it has binders.
func (env *Env) formula(cl *Clause, asGoal bool) (res *Term) {
	bsort := func(i int) (*Sort, bool) {
		switch cl.BTypes[i] {
		case "uint8":
			return BVSort(8), false
		case "uint16":
			return BVSort(16), false
		case "uint32":
			return BVSort(32), false
		case "uint64":
			return BVSort(64), false
		}
		return SortInt, true
	}
	bind := func(e *Env, ks []*Term) {
		if e.vars == nil {
			e.vars = map[int]Value{}
		}
		for i := range cl.Binders {
			_, sg := bsort(i)
			e.vars[cl.nRes+i] = IntV{ks[i], sg}
		}
	}
	if len(cl.Binders) == 0 {
		env.hyp = !asGoal
		defer func() { env.hyp = false }()
		return env.evalBool(cl)
	}
	if cl.Exists {
		if len(cl.Binders) != 1 {
			specFail("exists with more than one binder")
		}
		if !asGoal { // hypothesis: skolemise
			bs, _ := bsort(0)
			sk := Fresh("ex_"+cl.Binders[0], bs)
			env.st.addInst(sk)
			bind(env, []*Term{sk})
			return env.evalBool(cl)
		}
		// goal: the witness must be one of the instantiation terms seen on this path
		res := False
		bs, _ := bsort(0)
		cands := append([]*Term{zeroOfSort(bs)}, env.st.inst...)
		for _, t := range cands {
			if t.Sort != bs {
				continue
			}
			bind(env, []*Term{t})
			res = Or(res, env.evalBool(cl))
		}
		return res
	}
	if asGoal {
		var ks []*Term
		for i, b := range cl.Binders {
			bs, _ := bsort(i)
			sk := Fresh("sk_"+b, bs)
			env.st.addInst(sk)
			ks = append(ks, sk)
		}
		bind(env, ks)
		return env.evalBool(cl)
	}
	// hypothesis: instantiate lazily against a snapshot of the current state
	snap := env.st.clone()
	senv := &Env{u: env.u, st: snap, fr: env.fr, objs: map[types.Object]Value{}, entry: env.entry, eargs: env.eargs, snap: env.snap, head: env.head, inner: env.inner, cells: env.cells, multi: env.multi, ct: env.ct, vars: map[int]Value{}, hyp: true, lazy: true}
	for k, v := range env.objs {
		senv.objs[k] = v
	}
	for k, v := range env.vars {
		senv.vars[k] = v
	}
	if env.fr != nil {
		senv.fr = env.fr.clone()
	}
	cache := map[string]*Term{}
	var bsorts []*Sort
	for i := range cl.Binders {
		bs, _ := bsort(i)
		bsorts = append(bsorts, bs)
	}
	env.st.qh = append(env.st.qh, &QHyp{text: cl.Text, n: len(cl.Binders), sorts: bsorts, inst: func(ks []*Term) *Term {
		key := ""
		for _, k := range ks {
			key += fmt.Sprintf("%d,", k.id)
		}
		if t, ok := cache[key]; ok {
			return t
		}
		bind(senv, ks)
		base := len(senv.st.pc)
		t := senv.evalBool(cl)
		// type-invariant facts assumed while reading symbolic memory (lengths >= 0) belong to the instance
		if len(senv.st.pc) > base {
			t = And(append([]*Term{t}, senv.st.pc[base:]...)...)
			senv.st.pc = senv.st.pc[:base]
		}
		cache[key] = t
		return t
	}})
	return True
}

func (env *Env) evalBool(cl *Clause) *Term {
	v := env.eval(cl, cl.Expr)
	b, ok := v.(BoolV)
	if !ok {
		specFail("clause is not boolean")
	}
	return b.T
}

// safeFormula runs formula and converts spec evaluation failures into a reported error.
func (env *Env) safeFormula(cl *Clause, asGoal bool) (t *Term, err error) {
	defer func() {
		if r := recover(); r != nil {
			if sp, ok := r.(specPanic); ok {
				err = fmt.Errorf("%s", sp.msg)
				return
			}
			panic(r)
		}
	}()
	return env.formula(cl, asGoal), nil
}

// ---------- recursive ghost functions ----------

// regionKey: terms identifying the current contents of a region (root id and version, then the index path
// of nested regions).
func (u *Unit) regionKey(st *State, r *Region) []*Term {
	if r == nil {
		return []*Term{IntK(0)}
	}
	if r.parent != nil {
		k := u.regionKey(st, r.parent)
		h := int64(0)
		for _, c := range r.ppath {
			h = (h*131 + int64(c)) % 1000003
		}
		return append(append([]*Term(nil), k...), r.pidx, IntK(h))
	}
	rs := u.rstate(st, r)
	id := r.id
	if r.lineage != 0 {
		id = r.lineage
	}
	return []*Term{IntK(int64(id)*1000003 + int64(rs.ver))}
}

func (u *Unit) argTerms(st *State, v Value) ([]*Term, bool) {
	switch x := v.(type) {
	case IntV:
		return []*Term{x.T}, true
	case BoolV:
		return []*Term{x.T}, true
	case SliceV:
		// ghost recursive functions are prefix functions: they depend on the elements below their bound
		// argument only, never on len(slice) (assumption A-rec-prefix), so the length is not part of the key
		return append(u.regionKey(st, x.R), x.Off), true
	case StringV:
		return append(u.regionKey(st, x.R), x.Off, x.Len), true
	case StructV:
		var out []*Term
		for _, f := range x.F {
			t, ok := u.argTerms(st, f)
			if !ok {
				return nil, false
			}
			out = append(out, t...)
		}
		return out, true
	case SymIface:
		return append(append(u.regionKey(st, x.R), x.Idx), x.Tag), true
	}
	return nil, false
}

// recCall: an application of a recursive ghost function is an uninterpreted term; its defining equation is
// assumed once per application (fuel 1), which is what an inductive step k -> k+1 needs.
func (u *Unit) recCall(st *State, fn *ssa.Function, args []Value) Value {
	var ts []*Term
	for _, a := range args {
		t, ok := u.argTerms(st, a)
		if !ok {
			specFail("recursive spec function %s: unsupported argument %T", fn.Name(), a)
		}
		ts = append(ts, t...)
	}
	rt := fn.Signature.Results().At(0).Type()
	rs := scalarSort(rt)
	if rs == nil {
		specFail("recursive spec function %s: result must be a scalar", fn.Name())
	}
	t := UF(fmt.Sprintf("%s/%d", fn.Name(), len(ts)), rs, ts...)
	if ct := u.eng.contracts[fnKey(fn)]; ct != nil && ct.Monotone && rs.K == KInt {
		if u.usedCallee[fnKey(fn)] == nil {
			u.usedCallee[fnKey(fn)] = map[string]bool{}
		}
		u.usedCallee[fnKey(fn)]["monotone"] = true
		u.monotoneFacts(st, fn, args, ts, t)
	}
	mk := func(t *Term) Value {
		switch {
		case rs.K == KBool:
			return BoolV{t}
		case rs.K == KFP:
			return FloatV{t, rs.W}
		}
		_, sg, _ := intSort(rt)
		return IntV{t, sg}
	}
	constBound := false
	for _, a := range args {
		if iv, ok := a.(IntV); ok && iv.T.IsInt() && iv.T.C != nil && iv.T.C.IsInt64() && iv.T.C.Int64() <= 2 {
			constBound = true
		}
	}
	if (u.recDepth == 0 || (constBound && u.recDepth <= 3)) && !st.unfolded[t.id] {
		if st.unfolded == nil {
			st.unfolded = map[int]bool{}
		}
		st.unfolded[t.id] = true
		u.recDepth++
		u.specMode++
		base := len(st.pc)
		s0 := st.clone()
		outs := u.callFn(s0, fn, args, nil, 1, "")
		u.specMode--
		u.recDepth--
		var acc Value
		for i := len(outs) - 1; i >= 0; i-- {
			o := outs[i]
			cond := True
			if len(o.st.pc) > base {
				cond = And(o.st.pc[base:]...)
			}
			if acc == nil {
				acc = o.ret
				continue
			}
			m, ok := mergeValues(cond, o.ret, acc)
			if !ok {
				specFail("recursive spec function %s: cannot merge results", fn.Name())
			}
			acc = m
		}
		if acc != nil {
			if eq, ok := u.valueEq(st, mk(t), acc); ok {
				st.define(eq)
			}
		}
	}
	return mk(t)
}

// monotoneFacts: for a ghost prefix sum declared `rec monotone` (every step adds a non-negative amount — proved
// once as the obligation <fn>#monotone-step), any two applications that differ only in the bound argument are
// ordered like their bounds, and every application is non-negative. The induction itself is the meta-level
// step; its premise is machine-checked.
func (u *Unit) monotoneFacts(st *State, fn *ssa.Function, args []Value, ts []*Term, app *Term) {
	// the bound is the last Int-sorted scalar argument
	bi := -1
	for i := len(args) - 1; i >= 0; i-- {
		if iv, ok := args[i].(IntV); ok && iv.T.IsInt() {
			bi = i
			break
		}
	}
	if bi < 0 {
		return
	}
	bound := args[bi].(IntV).T
	key := fn.Name()
	for _, t := range ts {
		if t != bound {
			key += fmt.Sprintf(",%d", t.id)
		}
	}
	for _, ra := range st.recApps {
		if ra.app == app {
			return
		}
	}
	st.define(IntLe(IntK(0), app))
	for _, ra := range st.recApps {
		if ra.fn == fn.Name() && ra.other == key {
			st.define(Implies(IntLe(ra.bound, bound), IntLe(ra.app, app)))
			st.define(Implies(IntLe(bound, ra.bound), IntLe(app, ra.app)))
		}
	}
	st.recApps = append(st.recApps, recApp{fn.Name(), key, bound, app})
}
