package main

// Forward symbolic execution of naive-form go/ssa, function by function, with cut points at annotated loops
// and modular calls through contracts.

import (
	"path/filepath"
	"runtime"
	"sync"
	"os"
	"bytes"
	"fmt"
	"go/ast"
	"go/constant"
	"go/printer"
	"go/token"
	"go/types"
	"math/big"
	"strings"

	"golang.org/x/tools/go/ssa"
)

type Obligation struct {
	Name    string
	Kind    string // safety kinds (index, slice, nil, ...), post, pre, inv-establish, inv-preserve, decreases, frame, unwind, subset, int-range, cover
	Tags    []string
	Clause  string
	Func    string
	Hyps    []*Term
	Goal    *Term
	GetVals []*Term
	Cover   bool // a cover obligation expects SAT (reachability / non-vacuity)
	Pre     []*Term // call cover: the state before the call; vacuous only if Pre is satisfiable and Hyps is not
	Support bool
	Res     *ProveResult
	except  string
	CaseTerm       *Term
	CaseLo, CaseHi int
}

type Frame struct {
	fn        *ssa.Function
	regs      map[ssa.Value]Value
	visits    map[*ssa.BasicBlock]int
	depth     int
	symBranch bool
	loopSeen  map[*ssa.BasicBlock]bool
	loopDec   map[*ssa.BasicBlock]*Term
	loopSnap  map[*ssa.BasicBlock]*State // state at loop entry (for unchanged()/old-in-loop)
	entryArgs []Value
	entrySt   *State // state at function entry (for old())
	top       bool
	from      *ssa.BasicBlock // predecessor block (for Phi)
	ct        *Contract
	site      string // attribution for obligations raised inside inlined callees
	caller    *Frame // frame of the inlining caller on this path (nil for the top frame and for ghost executions)
}

func (f *Frame) clone() *Frame {
	n := *f
	n.regs = make(map[ssa.Value]Value, len(f.regs))
	for k, v := range f.regs {
		n.regs[k] = v
	}
	n.visits = make(map[*ssa.BasicBlock]int, len(f.visits))
	for k, v := range f.visits {
		n.visits[k] = v
	}
	n.loopSeen = make(map[*ssa.BasicBlock]bool, len(f.loopSeen))
	for k, v := range f.loopSeen {
		n.loopSeen[k] = v
	}
	n.loopDec = make(map[*ssa.BasicBlock]*Term, len(f.loopDec))
	for k, v := range f.loopDec {
		n.loopDec[k] = v
	}
	n.loopSnap = make(map[*ssa.BasicBlock]*State, len(f.loopSnap))
	for k, v := range f.loopSnap {
		n.loopSnap[k] = v
	}
	return &n
}

type Outcome struct {
	st  *State
	ret Value
}

// Unit is one verification run: one function against its contract, for one property projection.
type Unit struct {
	eng        *Engine
	inc        *IncSolver
	fn         *ssa.Function
	ct         *Contract
	prop       string // property projection ("" = all clauses)
	K          int    // unroll bound for loops without invariant (symbolic branches only)
	bounded    bool   // bounded mode: unroll, assume exit; inline instead of contracts
	obls       []*Obligation
	unsup      map[string]int
	trunc      int
	paths      int
	nextID     int
	specMode   int
	derivedTab map[string]*Region
	captured   map[*Object]bool
	exprText   map[*ssa.Function]map[token.Pos]string
	usedCallee map[string]map[string]bool // callee key -> clause labels assumed
	inlined    map[string]bool
	modRecv    map[*Object]bool // objects the unit may modify (from modifies)
	topFrame   *Frame           // frame of the function under verification
	initMode   bool             // executing package init to collect the values of read-only globals
	initVals   map[*ssa.Global]Value
	initObjs   map[*ssa.Global]*Object
	initState  *State
	modRgn     map[*Region]bool
	getvals    []*Term
	entryDesc  []entryVar
	maxPaths   int
	aborted    string
	cellTab    map[*ssa.Function]map[token.Pos]*ssa.Alloc
	cellMulti  map[*ssa.Function]map[token.Pos][]*ssa.Alloc
	aliasBase  map[*Region]*Region
	except     map[string]*Term
	recDepth   int
	appending  bool // writes performed by append beyond the old length do not change the prefix identity
}

// ---------- obligations ----------

func (u *Unit) oblige(st *State, name, kind string, tags []string, goal *Term, clause string) *Obligation {
	if goal.IsTrue() {
		// still counted: discharged by the simplifier
		o := &Obligation{Name: name, Kind: kind, Tags: tags, Goal: goal, Clause: clause, Func: fnKey(u.fn), Res: &ProveResult{Status: "unsat", Solver: "simplifier"}}
		u.obls = append(u.obls, o)
		return o
	}
	hyps := st.hypsFor(goal)
	if ex, ok := u.except[name]; ok {
		hyps = append(hyps, Not(ex)) // known finding: the obligation is proved on the complement of its predicate
	}
	o := &Obligation{Name: name, Kind: kind, Tags: tags, Hyps: hyps, Goal: goal, Clause: clause, Func: fnKey(u.fn), GetVals: u.getvals,
		CaseTerm: st.caseTerm, CaseLo: st.caseLo, CaseHi: st.caseHi}
	u.obls = append(u.obls, o)
	return o
}

// srcText returns the source text of the expression whose SSA instruction has position pos.
func (u *Unit) srcText(fn *ssa.Function, pos token.Pos) string {
	if !pos.IsValid() {
		return ""
	}
	m, ok := u.exprText[fn]
	if !ok {
		m = map[token.Pos]string{}
		root := fn
		for root.Parent() != nil {
			root = root.Parent()
		}
		if syn := root.Syntax(); syn != nil {
			pr := func(n ast.Node) string {
				var b bytes.Buffer
				printer.Fprint(&b, u.eng.fset, n)
				s := strings.Join(strings.Fields(b.String()), " ")
				if len(s) > 90 {
					s = s[:90] + "…"
				}
				return s
			}
			ast.Inspect(syn, func(n ast.Node) bool {
				switch x := n.(type) {
				case *ast.IndexExpr:
					m[x.Lbrack] = pr(x)
				case *ast.SliceExpr:
					m[x.Lbrack] = pr(x)
				case *ast.CallExpr:
					m[x.Lparen] = pr(x)
				case *ast.StarExpr:
					m[x.Star] = pr(x)
				case *ast.BinaryExpr:
					m[x.OpPos] = pr(x)
				case *ast.SelectorExpr:
					m[x.Sel.Pos()] = pr(x)
				case *ast.TypeAssertExpr:
					m[x.Lparen] = pr(x)
				case *ast.IncDecStmt:
					m[x.TokPos] = pr(x)
				case *ast.AssignStmt:
					m[x.TokPos] = pr(x)
				case *ast.CompositeLit:
					m[x.Lbrace] = pr(x)
				case *ast.UnaryExpr:
					m[x.OpPos] = pr(x)
				}
				return true
			})
		}
		u.exprText[fn] = m
	}
	return m[pos]
}

func (u *Unit) where(fr *Frame, in ssa.Instruction) string {
	if fr.site != "" {
		return fr.site
	}
	if in == nil {
		return ""
	}
	if t := u.srcText(in.Parent(), in.Pos()); t != "" {
		return t
	}
	// no source expression (e.g. i++ in a for clause): kind + ordinal among the function's instructions of that kind
	n := 0
	for _, b := range in.Parent().Blocks {
		for _, x := range b.Instrs {
			if fmt.Sprintf("%T", x) == fmt.Sprintf("%T", in) {
				n++
			}
			if x == in {
				op := ""
				if bo, ok := in.(*ssa.BinOp); ok {
					op = bo.Op.String()
				}
				return fmt.Sprintf("%s%s#%d", strings.TrimPrefix(fmt.Sprintf("%T", in), "*ssa."), op, n)
			}
		}
	}
	return strings.TrimSpace(in.String())
}

// require emits a safety obligation, assumes it, and reports whether the path can continue.
func (u *Unit) require(st *State, fr *Frame, safe *Term, kind string, in ssa.Instruction) bool {
	if u.specMode > 0 {
		return true
	}
	if !safe.IsTrue() {
		name := fmt.Sprintf("%s#%s:%s", fnKey(u.fn), kind, u.where(fr, in))
		tags := u.safetyTags(kind)
		u.oblige(st, name, kind, tags, safe, "")
	}
	if safe.IsFalse() {
		return false
	}
	st.assume(safe)
	// no feasibility query here: a path that can only continue by violating the obligation has a contradictory
	// path condition and is pruned at its next branch
	return true
}

func (u *Unit) safetyTags(kind string) []string {
	if kind == "frame" {
		return []string{"C18"}
	}
	if u.ct != nil {
		return u.ct.SafetyTags
	}
	return nil
}

var specNoPrune = os.Getenv("GOVC_SPECPRUNE") == ""
var qsites = map[string]int{}
var qsiteMu sync.Mutex
var debugQSites = os.Getenv("GOVC_QSITE") != ""

func (u *Unit) feasible(st *State) bool {
	if debugQSites {
		var pcs [6]uintptr
		n := runtime.Callers(2, pcs[:])
		fr := runtime.CallersFrames(pcs[:n])
		var parts []string
		for {
			f, more := fr.Next()
			parts = append(parts, fmt.Sprintf("%s:%d", filepath.Base(f.File), f.Line))
			if !more {
				break
			}
		}
		qsiteMu.Lock()
		qsites[strings.Join(parts, " < ")]++
		qsiteMu.Unlock()
	}
	return u.inc.Feasible(st.hyps())
}

func inIntRange(t *Term) *Term {
	lo := IntConst(new(big.Int).Neg(new(big.Int).Lsh(big.NewInt(1), 63)))
	hi := IntConst(new(big.Int).Lsh(big.NewInt(1), 63))
	return And(IntLe(lo, t), IntLt(t, hi))
}

// ---------- memory access ----------

func (u *Unit) load(st *State, fr *Frame, p Value, in ssa.Instruction) (Value, bool) {
	switch p := p.(type) {
	case PtrV:
		if p.Obj == nil {
			u.require(st, fr, False, "nil-deref", in)
			return nil, false
		}
		return getPath(st.objs[p.Obj], p.Path), true
	case ElemPtr:
		if p.Nil != nil && !u.require(st, fr, Not(p.Nil), "nil-deref", in) {
			return nil, false
		}
		return u.readRegion(st, p.R, p.Idx, p.Path, p.Typ)
	case GlobalPtr:
		return u.loadGlobal(st, p.G)
	}
	u.unsupported("load from %T", p)
	return nil, false
}

func (u *Unit) loadGlobal(st *State, g *ssa.Global) (Value, bool) {
	t := g.Type().(*types.Pointer).Elem()
	if isErrorType(t) {
		return ErrV{Nil: False, ID: IntK(int64(u.eng.globalID(g)))}, true
	}
	if st0, ok := t.Underlying().(*types.Struct); ok && st0.NumFields() == 0 {
		return StructV{}, true // e.g. encoding/binary.BigEndian
	}
	if u.initMode {
		if v, ok := u.initVals[g]; ok {
			return v, true
		}
		return u.zero(st, t), true // not yet initialised (init$guard starts false)
	}
	u.unsupported("read of package-level variable %s", g.Name())
	return nil, false
}

func (u *Unit) readRegion(st *State, r *Region, idx *Term, path string, t types.Type) (Value, bool) {
	if r == nil { // only reachable in spec mode (total semantics of ghost reads)
		return u.havoc(st, t, "nilread"), true
	}
	if r.concrete {
		rs := u.rstate(st, r)
		if idx.C != nil {
			i := int(idx.C.Int64())
			if i < 0 || i >= len(rs.elems) {
				if u.specMode > 0 {
					return u.havoc(st, t, "oob"), true
				}
				u.unsupported("concrete region index out of range")
				return nil, false
			}
			return getElemPath(rs.elems[i], path), true
		}
		// symbolic index into a concrete list: ite-merge scalars
		var acc Value
		for i := len(rs.elems) - 1; i >= 0; i-- {
			v := getElemPath(rs.elems[i], path)
			if acc == nil {
				acc = v
				continue
			}
			m, ok := mergeValues(Eq(idx, IntK(int64(i))), v, acc)
			if !ok {
				return u.havoc(st, t, "symidx"), true
			}
			acc = m
		}
		if acc == nil {
			return u.havoc(st, t, "symidx"), true
		}
		return acc, true
	}
	v := u.readElem(st, r, idx, path, t)
	if v == nil {
		return nil, false
	}
	return v, true
}

func getElemPath(v Value, path string) Value {
	for path != "" {
		if path[0] != '.' {
			panic("getElemPath " + path)
		}
		j := 1
		for j < len(path) && path[j] >= '0' && path[j] <= '9' {
			j++
		}
		var i int
		fmt.Sscanf(path[1:j], "%d", &i)
		v = v.(StructV).F[i]
		path = path[j:]
	}
	return v
}

func setElemPath(v Value, path string, nv Value) Value {
	if path == "" {
		return nv
	}
	j := 1
	for j < len(path) && path[j] >= '0' && path[j] <= '9' {
		j++
	}
	var i int
	fmt.Sscanf(path[1:j], "%d", &i)
	sv := v.(StructV)
	nf := append([]Value(nil), sv.F...)
	nf[i] = setElemPath(nf[i], path[j:], nv)
	return StructV{nf}
}

func mergeValues(c *Term, a, b Value) (Value, bool) {
	switch x := a.(type) {
	case IntV:
		y, ok := b.(IntV)
		if !ok || x.T.Sort != y.T.Sort {
			return nil, false
		}
		return IntV{Ite(c, x.T, y.T), x.Signed}, true
	case BoolV:
		y, ok := b.(BoolV)
		if !ok {
			return nil, false
		}
		return BoolV{Ite(c, x.T, y.T)}, true
	case FloatV:
		y, ok := b.(FloatV)
		if !ok {
			return nil, false
		}
		return FloatV{Ite(c, x.T, y.T), x.Bits}, true
	case StructV:
		y, ok := b.(StructV)
		if !ok || len(x.F) != len(y.F) {
			return nil, false
		}
		out := StructV{F: make([]Value, len(x.F))}
		for i := range x.F {
			m, ok := mergeValues(c, x.F[i], y.F[i])
			if !ok {
				return nil, false
			}
			out.F[i] = m
		}
		return out, true
	case ErrV:
		y, ok := b.(ErrV)
		if !ok {
			return nil, false
		}
		return ErrV{Ite(c, x.Nil, y.Nil), Ite(c, x.ID, y.ID)}, true
	case SliceV:
		y, ok := b.(SliceV)
		if !ok || x.R != y.R {
			return nil, false
		}
		return SliceV{x.R, Ite(c, x.Off, y.Off), Ite(c, x.Len, y.Len), Ite(c, x.Cap, y.Cap)}, true
	}
	return nil, false
}

func (u *Unit) store(st *State, fr *Frame, p Value, v Value, t types.Type, in ssa.Instruction) bool {
	switch p := p.(type) {
	case PtrV:
		if p.Obj == nil {
			u.require(st, fr, False, "nil-deref", in)
			return false
		}
		if !p.Obj.fresh && !u.modRecv[p.Obj] && u.specMode == 0 {
			u.frameViolation(st, fr, in) // reported under C18; the path continues for the other properties
		}
		if u.captured[p.Obj] {
			u.unsupported("store to an object after it was captured by value into a region")
			return false
		}
		st.objs[p.Obj] = setPath(st.objs[p.Obj], p.Path, v)
		return true
	case ElemPtr:
		if p.Nil != nil && !u.require(st, fr, Not(p.Nil), "nil-deref", in) {
			return false
		}
		if !u.writable(p.R) && u.specMode == 0 {
			u.frameViolation(st, fr, in)
		}
		if p.R.concrete {
			if p.Idx.C == nil {
				u.unsupported("symbolic index store into concrete region")
				return false
			}
			rs := u.rstate(st, p.R)
			ne := append([]Value(nil), rs.elems...)
			i := int(p.Idx.C.Int64())
			ne[i] = setElemPath(ne[i], p.Path, v)
			st.rgn[p.R] = &RegionState{elems: ne}
			return true
		}
		if p.R.parent != nil {
			u.unsupported("store into a nested region reached through symbolic memory")
			return false
		}
		return u.writeElem(st, p.R, p.Idx, p.Path, t, v)
	case GlobalPtr:
		if u.initMode {
			u.initVals[p.G] = v
			u.initState = st
			return true
		}
		u.frameViolation(st, fr, in)
		u.unsupported("store to package-level variable %s", p.G.Name())
		return false
	}
	u.unsupported("store to %T", p)
	return false
}

// frameViolation records a write outside the function's modifies set (an obligation that fails whenever the
// path is feasible) without ending the path.
func (u *Unit) frameViolation(st *State, fr *Frame, in ssa.Instruction) {
	name := fmt.Sprintf("%s#frame:%s", fnKey(u.fn), u.where(fr, in))
	u.oblige(st, name, "frame", []string{"C18"}, False, "")
}

func (u *Unit) writable(r *Region) bool {
	for x := r; x != nil; x = x.parent {
		if x.fresh || u.modRgn[x] {
			return true
		}
	}
	return false
}

// ---------- evaluation ----------

func (u *Unit) constVal(st *State, t types.Type, cv constant.Value) Value {
	if cv == nil {
		return u.zero(st, t)
	}
	switch cv.Kind() {
	case constant.Bool:
		return BoolV{BoolK(constant.BoolVal(cv))}
	case constant.Int:
		if fb := floatBits(t); fb > 0 {
			f, _ := constant.Float64Val(cv)
			return u.floatConst(f, fb)
		}
		s, sg, ok := intSort(t)
		if !ok {
			s, sg = SortInt, true
		}
		bi, _ := new(big.Int).SetString(cv.ExactString(), 10)
		if s.K == KInt {
			return IntV{IntConst(bi), sg}
		}
		return IntV{BVConst(bi, s.W), sg}
	case constant.Float:
		fb := floatBits(t)
		if fb == 0 {
			fb = 64
		}
		f, _ := constant.Float64Val(cv)
		return u.floatConst(f, fb)
	case constant.String:
		return u.stringLit(st, constant.StringVal(cv))
	}
	u.unsupported("constant %s", cv)
	return nil
}

func (u *Unit) stringLit(st *State, s string) Value {
	r := u.newRegion(types.Typ[types.Uint8], "lit")
	r.fresh = false
	r.concrete = true
	el := make([]Value, len(s))
	for i := range el {
		el[i] = IntV{BVInt(int64(s[i]), 8), false}
	}
	st.rgn[r] = &RegionState{elems: el}
	ss := s
	return StringV{R: r, Off: IntK(0), Len: IntK(int64(len(s))), Lit: &ss}
}

func (u *Unit) val(st *State, fr *Frame, v ssa.Value) Value {
	switch c := v.(type) {
	case *ssa.Const:
		return u.constVal(st, c.Type(), c.Value)
	case *ssa.Global:
		if u.initMode && c.Pkg == u.eng.ssaPkg {
			o := u.initObjs[c]
			if o == nil {
				o = u.newObject(st, u.zero(st, c.Type().(*types.Pointer).Elem()), c.Name())
				u.initObjs[c] = o
			}
			return PtrV{Obj: o}
		}
		if !u.initMode && c.Pkg == u.eng.ssaPkg {
			if gi := u.eng.globalInitInfo(); gi.objOf[c] != nil {
				// a read-only lookup table: its init-time value, shared by all units
				for r, rs := range gi.st.rgn {
					if _, ok := st.rgn[r]; !ok {
						st.rgn[r] = rs
					}
				}
				for o, v := range gi.st.objs {
					if _, ok := st.objs[o]; !ok {
						st.objs[o] = v
					}
				}
				return PtrV{Obj: gi.objOf[c]}
			}
		}
		return GlobalPtr{c}
	case *ssa.Function:
		return FuncV{Fn: c}
	case *ssa.Builtin:
		return BuiltinV{c}
	}
	if x, ok := fr.regs[v]; ok {
		return x
	}
	panic("no value for " + v.Name() + " = " + v.String() + " in " + fr.fn.String())
}

func (u *Unit) intBin(st *State, fr *Frame, op token.Token, a, b IntV, in ssa.Instruction) (Value, bool) {
	s := a.Signed
	isInt := a.T.IsInt()
	// shifts: the count may have any integer type
	if op == token.SHL || op == token.SHR {
		if isInt {
			// int << k: only constant counts are supported on mathematical ints
			if b.T.C != nil {
				k := uint(b.T.C.Int64())
				if op == token.SHL {
					r := IntMul(a.T, IntConst(new(big.Int).Lsh(big.NewInt(1), k)))
					if !u.rangeOK(st, fr, r, in) {
						return nil, false
					}
					return IntV{r, true}, true
				}
				return IntV{IntDivFloor(a.T, IntConst(new(big.Int).Lsh(big.NewInt(1), k))), true}, true
			}
			// go through 64-bit vectors
			av := IntToBV(a.T, 64)
			r, ok := u.intBin(st, fr, op, IntV{av, true}, b, in)
			if !ok {
				return nil, false
			}
			return IntV{BVToInt(r.(IntV).T, true), true}, true
		}
		w := a.T.W()
		var cnt *Term
		var big_ *Term
		if b.T.IsInt() {
			if b.T.C != nil {
				if b.T.C.Sign() < 0 {
					u.require(st, fr, False, "negative-shift", in)
					return nil, false
				}
				if b.T.C.Cmp(big.NewInt(int64(w))) >= 0 {
					cnt, big_ = BVInt(0, w), True
				} else {
					cnt, big_ = BVConst(b.T.C, w), False
				}
			} else {
				if b.Signed && !u.require(st, fr, IntLe(IntK(0), b.T), "negative-shift", in) {
					return nil, false
				}
				cnt = IntToBV(b.T, w)
				big_ = IntLe(IntK(int64(w)), b.T)
			}
		} else {
			if b.Signed && !u.require(st, fr, Not(BVCmp("bvslt", b.T, BVInt(0, b.T.W()))), "negative-shift", in) {
				return nil, false
			}
			switch {
			case b.T.W() == w:
				cnt, big_ = b.T, False
			case b.T.W() < w:
				cnt, big_ = ZeroExt(b.T, w), False
			default:
				cnt = Extract(w-1, 0, b.T)
				big_ = Not(Eq(Extract(b.T.W()-1, w, b.T), BVInt(0, b.T.W()-w)))
			}
		}
		var res *Term
		switch {
		case op == token.SHL:
			res = Ite(big_, BVInt(0, w), BVBin("bvshl", a.T, cnt))
		case s:
			res = Ite(big_, BVBin("bvashr", a.T, BVInt(int64(w-1), w)), BVBin("bvashr", a.T, cnt))
		default:
			res = Ite(big_, BVInt(0, w), BVBin("bvlshr", a.T, cnt))
		}
		return IntV{res, s}, true
	}
	if a.T.Sort != b.T.Sort {
		// untyped constant against typed operand
		switch {
		case a.T.C != nil && a.T.IsInt() && b.T.IsBV():
			a = IntV{BVConst(a.T.C, b.T.W()), b.Signed}
		case b.T.C != nil && b.T.IsInt() && a.T.IsBV():
			b = IntV{BVConst(b.T.C, a.T.W()), a.Signed}
		default:
			u.unsupported("integer binop %s on mixed sorts %s / %s", op, a.T.Sort.S, b.T.Sort.S)
			return nil, false
		}
		s, isInt = a.Signed, a.T.IsInt()
	}
	if isInt {
		switch op {
		case token.ADD, token.SUB, token.MUL:
			var r *Term
			switch op {
			case token.ADD:
				r = IntAdd(a.T, b.T)
			case token.SUB:
				r = IntSub(a.T, b.T)
			default:
				r = IntMul(a.T, b.T)
			}
			if !u.rangeOK(st, fr, r, in) {
				return nil, false
			}
			return IntV{r, true}, true
		case token.QUO, token.REM:
			if !u.require(st, fr, Not(Eq(b.T, IntK(0))), "div-by-zero", in) {
				return nil, false
			}
			if a.T.C == nil && b.T.C != nil && b.T.C.Sign() > 0 && u.specMode == 0 {
				// Go truncates toward zero, SMT div/mod floor: they agree for a non-negative dividend
				if u.inc.Valid(st.hyps(), IntLe(IntK(0), a.T)) {
					if op == token.QUO {
						return IntV{IntDivFloor(a.T, b.T), true}, true
					}
					return IntV{IntModFloor(a.T, b.T), true}, true
				}
			}
			if op == token.QUO {
				return IntV{IntQuo(a.T, b.T), true}, true
			}
			return IntV{IntRem(a.T, b.T), true}, true
		case token.AND, token.OR, token.XOR, token.AND_NOT:
			av, bv := IntToBV(a.T, 64), IntToBV(b.T, 64)
			r, ok := u.intBin(st, fr, op, IntV{av, true}, IntV{bv, true}, in)
			if !ok {
				return nil, false
			}
			return IntV{BVToInt(r.(IntV).T, true), true}, true
		case token.EQL:
			return BoolV{Eq(a.T, b.T)}, true
		case token.NEQ:
			return BoolV{Not(Eq(a.T, b.T))}, true
		case token.LSS:
			return BoolV{IntLt(a.T, b.T)}, true
		case token.LEQ:
			return BoolV{IntLe(a.T, b.T)}, true
		case token.GTR:
			return BoolV{IntLt(b.T, a.T)}, true
		case token.GEQ:
			return BoolV{IntLe(b.T, a.T)}, true
		}
		u.unsupported("int binop %s", op)
		return nil, false
	}
	cmp := func(sop, uop string, x, y *Term) Value {
		if s {
			return BoolV{BVCmp(sop, x, y)}
		}
		return BoolV{BVCmp(uop, x, y)}
	}
	switch op {
	case token.ADD:
		return IntV{BVBin("bvadd", a.T, b.T), s}, true
	case token.SUB:
		return IntV{BVBin("bvsub", a.T, b.T), s}, true
	case token.MUL:
		return IntV{BVBin("bvmul", a.T, b.T), s}, true
	case token.QUO, token.REM:
		if !u.require(st, fr, Not(Eq(b.T, BVInt(0, b.T.W()))), "div-by-zero", in) {
			return nil, false
		}
		o := map[bool]map[token.Token]string{true: {token.QUO: "bvsdiv", token.REM: "bvsrem"}, false: {token.QUO: "bvudiv", token.REM: "bvurem"}}[s][op]
		return IntV{BVBin(o, a.T, b.T), s}, true
	case token.AND:
		return IntV{BVBin("bvand", a.T, b.T), s}, true
	case token.OR:
		return IntV{BVBin("bvor", a.T, b.T), s}, true
	case token.XOR:
		return IntV{BVBin("bvxor", a.T, b.T), s}, true
	case token.AND_NOT:
		return IntV{BVBin("bvand", a.T, BVNot(b.T)), s}, true
	case token.EQL:
		return BoolV{Eq(a.T, b.T)}, true
	case token.NEQ:
		return BoolV{Not(Eq(a.T, b.T))}, true
	case token.LSS:
		return cmp("bvslt", "bvult", a.T, b.T), true
	case token.LEQ:
		return cmp("bvsle", "bvule", a.T, b.T), true
	case token.GTR:
		return cmp("bvslt", "bvult", b.T, a.T), true
	case token.GEQ:
		return cmp("bvsle", "bvule", b.T, a.T), true
	}
	u.unsupported("bv binop %s", op)
	return nil, false
}

// rangeOK emits the obligation that an int-typed result is a machine int (so that treating it as a
// mathematical integer is justified).
func (u *Unit) rangeOK(st *State, fr *Frame, r *Term, in ssa.Instruction) bool {
	if u.specMode > 0 || r.C != nil {
		return true
	}
	if in == nil || (fr != nil && fr.top && u.ct != nil && u.ct.MathInt) {
		return true
	}
	g := inIntRange(r)
	name := fmt.Sprintf("%s#int-range:%s", fnKey(u.fn), u.where(fr, in))
	u.oblige(st, name, "int-range", u.safetyTags("int-range"), g, "")
	st.assume(g)
	return true
}

func (u *Unit) floatBin(st *State, op token.Token, a, b FloatV) (Value, bool) {
	if a.Bits != b.Bits {
		u.unsupported("float binop on mixed widths")
		return nil, false
	}
	switch op {
	case token.ADD:
		return FloatV{FPBin("fp.add", a.T, b.T), a.Bits}, true
	case token.SUB:
		return FloatV{FPBin("fp.sub", a.T, b.T), a.Bits}, true
	case token.MUL:
		return FloatV{FPBin("fp.mul", a.T, b.T), a.Bits}, true
	case token.QUO:
		return FloatV{FPBin("fp.div", a.T, b.T), a.Bits}, true
	case token.EQL:
		return BoolV{FPCmp("fp.eq", a.T, b.T)}, true
	case token.NEQ:
		return BoolV{Not(FPCmp("fp.eq", a.T, b.T))}, true
	case token.LSS:
		return BoolV{FPCmp("fp.lt", a.T, b.T)}, true
	case token.LEQ:
		return BoolV{FPCmp("fp.leq", a.T, b.T)}, true
	case token.GTR:
		return BoolV{FPCmp("fp.gt", a.T, b.T)}, true
	case token.GEQ:
		return BoolV{FPCmp("fp.geq", a.T, b.T)}, true
	}
	u.unsupported("float binop %s", op)
	return nil, false
}

func (u *Unit) floatConst(f float64, bits int) Value {
	if bits == 32 {
		return FloatV{FPConstBits(new(big.Int).SetUint64(uint64(f32bits(float32(f)))), 32), 32}
	}
	return FloatV{FPConstBits(new(big.Int).SetUint64(f64bits(f)), 64), 64}
}

func (u *Unit) binop(st *State, fr *Frame, op token.Token, x, y Value, in ssa.Instruction) (Value, bool) {
	switch a := x.(type) {
	case IntV:
		b, ok := y.(IntV)
		if !ok {
			break
		}
		return u.intBin(st, fr, op, a, b, in)
	case FloatV:
		b, ok := y.(FloatV)
		if !ok {
			break
		}
		return u.floatBin(st, op, a, b)
	case BoolV:
		b := y.(BoolV)
		switch op {
		case token.EQL:
			return BoolV{Eq(a.T, b.T)}, true
		case token.NEQ:
			return BoolV{Not(Eq(a.T, b.T))}, true
		case token.LAND, token.AND:
			return BoolV{And(a.T, b.T)}, true
		case token.LOR, token.OR:
			return BoolV{Or(a.T, b.T)}, true
		}
	case ErrV:
		b, ok := y.(ErrV)
		if !ok {
			break
		}
		var eq *Term
		switch {
		case b.Nil.IsTrue():
			eq = a.Nil
		case a.Nil.IsTrue():
			eq = b.Nil
		default:
			eq = And(Eq(a.Nil, b.Nil), Or(a.Nil, Eq(a.ID, b.ID)))
		}
		if op == token.NEQ {
			eq = Not(eq)
		}
		return BoolV{eq}, true
	case StringV:
		b, ok := y.(StringV)
		if !ok {
			break
		}
		switch op {
		case token.ADD:
			return u.concatStrings(st, a, b), true
		case token.EQL, token.NEQ:
			eq := u.bytesEqual(st, a.R, a.Off, a.Len, b.R, b.Off, b.Len)
			if op == token.NEQ {
				eq = Not(eq)
			}
			return BoolV{eq}, true
		}
	case SliceV: // comparison with nil only
		if b, ok := y.(SliceV); ok && (a.R == nil || b.R == nil) {
			var isnil *Term
			switch {
			case a.R == nil && b.R == nil:
				isnil = True
			default:
				// a slice with a region is treated as non-nil unless it is a possibly-nil input
				isnil = False
			}
			if op == token.NEQ {
				isnil = Not(isnil)
			}
			return BoolV{isnil}, true
		}
	case PtrV:
		if b, ok := y.(PtrV); ok {
			eq := BoolK(a.Obj == b.Obj && fmt.Sprint(a.Path) == fmt.Sprint(b.Path))
			if op == token.NEQ {
				eq = Not(eq)
			}
			return BoolV{eq}, true
		}
		if b, ok := y.(ElemPtr); ok && a.Obj == nil && b.Nil != nil {
			eq := b.Nil
			if op == token.NEQ {
				eq = Not(eq)
			}
			return BoolV{eq}, true
		}
	case ElemPtr:
		if b, ok := y.(PtrV); ok && b.Obj == nil {
			eq := False
			if a.Nil != nil {
				eq = a.Nil
			}
			if op == token.NEQ {
				eq = Not(eq)
			}
			return BoolV{eq}, true
		}
	case IfaceV:
		if b, ok := y.(IfaceV); ok && (a.Typ == nil || b.Typ == nil) {
			eq := BoolK(a.Typ == nil && b.Typ == nil)
			if op == token.NEQ {
				eq = Not(eq)
			}
			return BoolV{eq}, true
		}
		if b, ok := y.(SymIface); ok && a.Typ == nil {
			eq := Eq(b.Tag, IntK(0))
			if op == token.NEQ {
				eq = Not(eq)
			}
			return BoolV{eq}, true
		}
	case SymIface:
		if b, ok := y.(IfaceV); ok && b.Typ == nil {
			eq := Eq(a.Tag, IntK(0))
			if op == token.NEQ {
				eq = Not(eq)
			}
			return BoolV{eq}, true
		}
	case FuncV:
		if b, ok := y.(FuncV); ok && b.Fn == nil && b.Sym == nil {
			eq := BoolK(a.Fn == nil && a.Sym == nil)
			if op == token.NEQ {
				eq = Not(eq)
			}
			return BoolV{eq}, true
		}
	}
	u.unsupported("binop %s on %T, %T", op, x, y)
	return nil, false
}

// bytesEqual: equality of two byte sequences; exact when one length is a small constant.
func (u *Unit) bytesEqual(st *State, ra *Region, oa, la *Term, rb *Region, ob, lb *Term) *Term {
	n := la
	if n.C == nil {
		n = lb
	}
	if n.C != nil && n.C.Int64() <= 64 {
		c := Eq(la, lb)
		for i := int64(0); i < n.C.Int64(); i++ {
			x, _ := u.readRegion(st, ra, IntAdd(oa, IntK(i)), "", types.Typ[types.Uint8])
			y, _ := u.readRegion(st, rb, IntAdd(ob, IntK(i)), "", types.Typ[types.Uint8])
			if x == nil || y == nil {
				return Fresh("byteseq", SortBool)
			}
			c = And(c, Eq(x.(IntV).T, y.(IntV).T))
		}
		return c
	}
	// unknown lengths: an uninterpreted outcome constrained by the length equality
	r := Fresh("byteseq", SortBool)
	st.assume(Implies(r, Eq(la, lb)))
	return r
}

func (u *Unit) concatStrings(st *State, a, b StringV) Value {
	if a.Lit != nil && b.Lit != nil {
		return u.stringLit(st, *a.Lit+*b.Lit)
	}
	r := u.newRegion(types.Typ[types.Uint8], "concat")
	r.fresh = true
	ln := IntAdd(a.Len, b.Len)
	st.alloc = IntAdd(st.alloc, ln)
	// contents: a then b
	var m Mem = baseMem{Var(r.name+"@0", ArrSort(SortInt, BVSort(8)))}
	if a.R != nil && !a.R.concrete && b.R != nil && !b.R.concrete {
		m = copyMem{copyMem{m, IntK(0), a.Len, u.compMem(st, a.R, "", BVSort(8)), a.Off}, a.Len, b.Len, u.compMem(st, b.R, "", BVSort(8)), b.Off}
		u.setComp(st, r, "", m)
	}
	return StringV{R: r, Off: IntK(0), Len: ln}
}

// ---------- the interpreter loop ----------

var debugPaths = os.Getenv("GOVC_PATHS") != ""

func (u *Unit) run(st *State, fr *Frame, b *ssa.BasicBlock, idx int) []Outcome {
	if u.aborted != "" {
		return nil
	}
	for i := idx; i < len(b.Instrs); i++ {
		switch in := b.Instrs[i].(type) {
		case *ssa.DebugRef, *ssa.RunDefers:
		case *ssa.Phi:
			found := false
			for pi, p := range b.Preds {
				if p == fr.from {
					fr.regs[in] = u.val(st, fr, in.Edges[pi])
					found = true
					break
				}
			}
			if !found {
				u.unsupported("phi without known predecessor")
				return nil
			}
		case *ssa.Alloc:
			t := in.Type().(*types.Pointer).Elem()
			o := u.newObject(st, u.zero(st, t), in.Comment)
			if in.Heap && (in.Comment == "new" || in.Comment == "complit" || in.Comment == "slicelit" || in.Comment == "makeslice") {
				// explicit allocation expressions count toward the ghost allocation counter; named locals whose
				// address is taken are left to escape analysis (not modelled)
				st.alloc = IntAdd(st.alloc, IntK(typeSize(t)))
			}
			fr.regs[in] = PtrV{Obj: o}
		case *ssa.UnOp:
			x := u.val(st, fr, in.X)
			switch in.Op {
			case token.MUL:
				v, ok := u.load(st, fr, x, in)
				if !ok {
					return nil
				}
				fr.regs[in] = v
			case token.NOT:
				fr.regs[in] = BoolV{Not(x.(BoolV).T)}
			case token.SUB:
				switch a := x.(type) {
				case IntV:
					if a.T.IsInt() {
						fr.regs[in] = IntV{IntNeg(a.T), true}
					} else {
						fr.regs[in] = IntV{BVNeg(a.T), a.Signed}
					}
				case FloatV:
					fr.regs[in] = FloatV{FPNeg(a.T), a.Bits}
				}
			case token.XOR:
				a := x.(IntV)
				if a.T.IsInt() {
					fr.regs[in] = IntV{IntSub(IntK(-1), a.T), true}
				} else {
					fr.regs[in] = IntV{BVNot(a.T), a.Signed}
				}
			default:
				u.unsupported("unop %s", in.Op)
				return nil
			}
		case *ssa.Store:
			if !u.store(st, fr, u.val(st, fr, in.Addr), u.val(st, fr, in.Val), in.Val.Type(), in) {
				return nil
			}
		case *ssa.BinOp:
			v, ok := u.binop(st, fr, in.Op, u.val(st, fr, in.X), u.val(st, fr, in.Y), in)
			if !ok {
				return nil
			}
			fr.regs[in] = v
		case *ssa.Convert:
			v, ok := u.convert(st, fr, u.val(st, fr, in.X), in.X.Type(), in.Type(), in)
			if !ok {
				return nil
			}
			fr.regs[in] = v
		case *ssa.ChangeType:
			fr.regs[in] = u.val(st, fr, in.X)
		case *ssa.ChangeInterface:
			fr.regs[in] = u.val(st, fr, in.X)
		case *ssa.FieldAddr:
			switch p := u.val(st, fr, in.X).(type) {
			case PtrV:
				if p.Obj == nil {
					u.require(st, fr, False, "nil-deref", in)
					return nil
				}
				fr.regs[in] = PtrV{p.Obj, append(append([]int(nil), p.Path...), in.Field)}
			case ElemPtr:
				if p.Nil != nil && !u.require(st, fr, Not(p.Nil), "nil-deref", in) {
					return nil
				}
				st0 := p.Typ.Underlying().(*types.Struct)
				fr.regs[in] = ElemPtr{R: p.R, Idx: p.Idx, Path: fmt.Sprintf("%s.%d", p.Path, in.Field), Typ: st0.Field(in.Field).Type()}
			default:
				if _, isG := p.(GlobalPtr); isG {
					u.frameViolation(st, fr, in) // address of a mutable package-level variable: shared state (C18)
				}
				u.unsupported("fieldaddr on %T", p)
				return nil
			}
		case *ssa.Field:
			fr.regs[in] = u.val(st, fr, in.X).(StructV).F[in.Field]
		case *ssa.IndexAddr:
			x := u.val(st, fr, in.X)
			iv := u.val(st, fr, in.Index).(IntV)
			it := toInt(iv)
			switch s := x.(type) {
			case SliceV:
				if !u.require(st, fr, And(IntLe(IntK(0), it), IntLt(it, s.Len)), "index", in) {
					return nil
				}
				et := in.X.Type().Underlying().(*types.Slice).Elem()
				if u.specMode == 0 && it.C == nil && len(st.inst) < 48 {
					st.addInst(it) // index terms of the program are instantiation candidates for quantified hypotheses
				}
				fr.regs[in] = ElemPtr{R: s.R, Idx: IntAdd(s.Off, it), Typ: et}
			case PtrV: // pointer to array
				av, ok := getPath(st.objs[s.Obj], s.Path).(ArrayV)
				if !ok {
					u.unsupported("indexaddr through pointer to %T", getPath(st.objs[s.Obj], s.Path))
					return nil
				}
				if !u.require(st, fr, And(IntLe(IntK(0), it), IntLt(it, IntK(av.N))), "index", in) {
					return nil
				}
				et := in.X.Type().Underlying().(*types.Pointer).Elem().Underlying().(*types.Array).Elem()
				fr.regs[in] = ElemPtr{R: av.R, Idx: it, Typ: et}
			default:
				if _, isG := x.(GlobalPtr); isG {
					u.frameViolation(st, fr, in) // element of a mutable package-level variable: shared state (C18)
				}
				u.unsupported("indexaddr on %T", x)
				return nil
			}
		case *ssa.Index:
			x := u.val(st, fr, in.X)
			iv := u.val(st, fr, in.Index).(IntV)
			it := toInt(iv)
			switch s := x.(type) {
			case ArrayV:
				if !u.require(st, fr, And(IntLe(IntK(0), it), IntLt(it, IntK(s.N))), "index", in) {
					return nil
				}
				v, ok := u.readRegion(st, s.R, it, "", in.Type())
				if !ok {
					return nil
				}
				fr.regs[in] = v
			case StringV:
				if !u.require(st, fr, And(IntLe(IntK(0), it), IntLt(it, s.Len)), "index", in) {
					return nil
				}
				v, ok := u.readRegion(st, s.R, IntAdd(s.Off, it), "", types.Typ[types.Uint8])
				if !ok {
					return nil
				}
				fr.regs[in] = v
			default:
				u.unsupported("index on %T", x)
				return nil
			}
		case *ssa.Lookup:
			x := u.val(st, fr, in.X)
			switch s := x.(type) {
			case StringV:
				it := toInt(u.val(st, fr, in.Index).(IntV))
				if !u.require(st, fr, And(IntLe(IntK(0), it), IntLt(it, s.Len)), "index", in) {
					return nil
				}
				v, ok := u.readRegion(st, s.R, IntAdd(s.Off, it), "", types.Typ[types.Uint8])
				if !ok {
					return nil
				}
				fr.regs[in] = v
			case MapV:
				k := u.val(st, fr, in.Index)
				vt := in.X.Type().Underlying().(*types.Map).Elem()
				var acc Value = u.zero(st, vt)
				found := False
				for j := len(s.Keys) - 1; j >= 0; j-- {
					eqv, ok := u.binop(st, fr, token.EQL, k, s.Keys[j], in)
					if !ok {
						return nil
					}
					m, ok := mergeValues(eqv.(BoolV).T, s.Vals[j], acc)
					if !ok {
						u.unsupported("map lookup merge")
						return nil
					}
					acc = m
					found = Or(found, eqv.(BoolV).T)
				}
				if in.CommaOk {
					fr.regs[in] = TupleV{acc, BoolV{found}}
				} else {
					fr.regs[in] = acc
				}
			default:
				u.unsupported("lookup on %T", x)
				return nil
			}
		case *ssa.MakeMap:
			fr.regs[in] = MapV{}
		case *ssa.MapUpdate:
			// only used to build constant tables in a local; the map value lives in the register
			m := u.val(st, fr, in.Map).(MapV)
			nm := MapV{Keys: append(append([]Value(nil), m.Keys...), u.val(st, fr, in.Key)), Vals: append(append([]Value(nil), m.Vals...), u.val(st, fr, in.Value))}
			// naive form: maps are reference values; update every register/cell holding this map is not needed
			// because the builder pattern is `m := make; m[k]=v...; return m` — we rebind the defining register.
			fr.regs[in.Map] = nm
			u.rebindMap(st, fr, in.Map, nm)
		case *ssa.Slice:
			if !u.doSlice(st, fr, in) {
				return nil
			}
		case *ssa.MakeSlice:
			ln := toInt(u.val(st, fr, in.Len).(IntV))
			cp := toInt(u.val(st, fr, in.Cap).(IntV))
			if !u.require(st, fr, And(IntLe(IntK(0), ln), IntLe(ln, cp), IntLe(cp, IntK(1<<44))), "makeslice", in) {
				return nil
			}
			et := in.Type().Underlying().(*types.Slice).Elem()
			r := u.newRegion(et, "make")
			r.fresh = true
			if flatElem(et) || cp.C == nil {
				r.zero = true
			} else {
				r.concrete = true
				el := make([]Value, cp.C.Int64())
				for j := range el {
					el[j] = u.zero(st, et)
				}
				st.rgn[r] = &RegionState{elems: el}
			}
			st.alloc = IntAdd(st.alloc, IntMul(cp, IntK(typeSize(et))))
			fr.regs[in] = SliceV{r, IntK(0), ln, cp}
		case *ssa.MakeInterface:
			if isErrorType(in.Type()) {
				fr.regs[in] = ErrV{Nil: False, ID: Fresh("err", SortInt)}
			} else {
				fr.regs[in] = IfaceV{Typ: in.X.Type(), V: u.val(st, fr, in.X)}
			}
		case *ssa.MakeClosure:
			var binds []Value
			for _, bv := range in.Bindings {
				binds = append(binds, u.val(st, fr, bv))
			}
			fr.regs[in] = FuncV{Fn: in.Fn.(*ssa.Function), Binds: binds}
		case *ssa.TypeAssert:
			outs, ok := u.typeAssert(st, fr, in)
			if !ok {
				return nil
			}
			return u.continueWith(outs, fr, in, b, i)
		case *ssa.Extract:
			fr.regs[in] = u.val(st, fr, in.Tuple).(TupleV)[in.Index]
		case *ssa.Call:
			outs, ok := u.call(st, fr, in)
			if debugPaths {
				fmt.Fprintf(os.Stderr, "  [paths] %s: call %s -> %d outcomes ok=%v\n", fnKey(fr.fn), u.where(fr, in), len(outs), ok)
			}
			if !ok {
				return nil
			}
			return u.continueWith(outs, fr, in, b, i)
		case *ssa.If:
			c := u.val(st, fr, in.Cond).(BoolV).T
			var res []Outcome
			try := func(cond *Term, succ *ssa.BasicBlock, s *State, f *Frame) {
				if cond.IsFalse() {
					return
				}
				if !cond.IsTrue() {
					s.assume(cond)
					if m := IntMirror(cond); m != nil {
						s.assume(m)
						mirrorFacts.Store(m, true)
					}
					f.symBranch = true
					if !(u.specMode > 0 && specNoPrune) && !u.feasible(s) {
						return
					}
				}
				f.from = b
				res = append(res, u.enter(s, f, succ)...)
			}
			if c.C != nil {
				if c.IsTrue() {
					try(c, b.Succs[0], st, fr)
				} else {
					try(Not(c), b.Succs[1], st, fr)
				}
				return res
			}
			st2, fr2 := st.clone(), fr.clone()
			try(c, b.Succs[0], st, fr)
			try(Not(c), b.Succs[1], st2, fr2)
			return res
		case *ssa.Jump:
			fr.from = b
			return u.enter(st, fr, b.Succs[0])
		case *ssa.Return:
			var ret Value
			if len(in.Results) == 1 {
				ret = u.val(st, fr, in.Results[0])
			} else if len(in.Results) > 1 {
				tv := TupleV{}
				for _, r := range in.Results {
					tv = append(tv, u.val(st, fr, r))
				}
				ret = tv
			}
			if fr.top {
				u.paths++
				if u.paths > u.maxPaths {
					u.aborted = fmt.Sprintf("more than %d paths", u.maxPaths)
				}
			}
			return []Outcome{{st, ret}}
		case *ssa.Panic:
			u.require(st, fr, False, "explicit-panic", in)
			return nil
		default:
			u.unsupported("instr %T", in)
			return nil
		}
	}
	return nil
}

func (u *Unit) rebindMap(st *State, fr *Frame, m ssa.Value, nm MapV) {
	// maps stored in local cells: update cells that hold the old map value created by the same MakeMap
	for o, v := range st.objs {
		if mv, ok := v.(MapV); ok && len(mv.Keys) == len(nm.Keys)-1 {
			same := true
			for i := range mv.Keys {
				if fmt.Sprint(mv.Keys[i]) != fmt.Sprint(nm.Keys[i]) {
					same = false
				}
			}
			if same {
				st.objs[o] = nm
			}
		}
	}
}

func (u *Unit) continueWith(outs []Outcome, fr *Frame, in ssa.Value, b *ssa.BasicBlock, i int) []Outcome {
	var res []Outcome
	for k, o := range outs {
		nfr := fr
		if k < len(outs)-1 {
			nfr = fr.clone()
		}
		nfr.regs[in] = o.ret
		res = append(res, u.run(o.st, nfr, b, i+1)...)
	}
	return res
}

func (u *Unit) doSlice(st *State, fr *Frame, in *ssa.Slice) bool {
	x := u.val(st, fr, in.X)
	var baseR *Region
	var off, ln, cp *Term
	isString := false
	switch s := x.(type) {
	case SliceV:
		baseR, off, ln, cp = s.R, s.Off, s.Len, s.Cap
	case StringV:
		baseR, off, ln, cp = s.R, s.Off, s.Len, s.Len
		isString = true
	case PtrV:
		av, ok := getPath(st.objs[s.Obj], s.Path).(ArrayV)
		if !ok {
			u.unsupported("slice of pointer to non-array")
			return false
		}
		baseR, off, ln, cp = av.R, IntK(0), IntK(av.N), IntK(av.N)
	default:
		if _, isG := x.(GlobalPtr); isG {
			u.frameViolation(st, fr, in) // slice of a mutable package-level array: shared state (C18)
		}
		u.unsupported("slice of %T", x)
		return false
	}
	lo, hi := IntK(0), ln
	if in.Low != nil {
		lo = toInt(u.val(st, fr, in.Low).(IntV))
	}
	if in.High != nil {
		hi = toInt(u.val(st, fr, in.High).(IntV))
	}
	mx := cp
	if in.Max != nil {
		mx = toInt(u.val(st, fr, in.Max).(IntV))
		if !u.require(st, fr, And(IntLe(hi, mx), IntLe(mx, cp)), "slice", in) {
			return false
		}
	}
	if !u.require(st, fr, And(IntLe(IntK(0), lo), IntLe(lo, hi), IntLe(hi, cp)), "slice", in) {
		return false
	}
	// C06 locality: re-slicing input memory beyond len (up to cap) would read bytes outside the argument
	if u.ct != nil && u.ct.NoCap && baseR != nil && baseR.input && !isString && in.High != nil {
		name := fmt.Sprintf("%s#nocap:%s", fnKey(u.fn), u.where(fr, in))
		u.oblige(st, name, "nocap", []string{"C06"}, IntLe(hi, ln), "")
	}
	if isString {
		fr.regs[in] = StringV{R: baseR, Off: IntAdd(off, lo), Len: IntSub(hi, lo)}
	} else {
		fr.regs[in] = SliceV{baseR, IntAdd(off, lo), IntSub(hi, lo), IntSub(mx, lo)}
	}
	return true
}

func (u *Unit) convert(st *State, fr *Frame, x Value, from, to types.Type, in ssa.Instruction) (Value, bool) {
	switch a := x.(type) {
	case IntV:
		if _, _, ok := intSort(to); ok {
			return convInt(a, to), true
		}
		if fb := floatBits(to); fb > 0 {
			if a.T.IsInt() {
				if a.T.C != nil {
					f, _ := new(big.Float).SetInt(a.T.C).Float64()
					return u.floatConst(f, fb), true
				}
				bv := IntToBV(a.T, 64)
				return FloatV{FPFromSBV(bv, fb), fb}, true
			}
			if a.Signed {
				return FloatV{FPFromSBV(a.T, fb), fb}, true
			}
			return FloatV{FPFromUBV(a.T, fb), fb}, true
		}
		if isStringType(to) {
			// string(rune): 1 to 4 bytes of UTF-8 (contents not modelled)
			sv := u.havoc(st, types.Typ[types.String], "runestr").(StringV)
			st.assume(And(IntLe(IntK(1), sv.Len), IntLe(sv.Len, IntK(4))))
			sv.R.fresh, sv.R.input = true, false
			st.alloc = IntAdd(st.alloc, IntK(4))
			return sv, true
		}
	case FloatV:
		if fb := floatBits(to); fb > 0 {
			if fb == a.Bits {
				return a, true
			}
			return FloatV{FPToFP(a.T, fb), fb}, true
		}
		if s, sg, ok := intSort(to); ok {
			w := 64
			if s.K == KBV {
				w = s.W
			}
			// Go leaves out-of-range float->int conversion implementation-defined: require in-range
			var lo, hi *Term
			if sg {
				lo = u.floatConst(-float64(uint64(1)<<(uint(w)-1)), a.Bits).(FloatV).T
				hi = u.floatConst(float64(uint64(1)<<(uint(w)-1)), a.Bits).(FloatV).T
			} else {
				lo = u.floatConst(-1, a.Bits).(FloatV).T
				if w == 64 {
					hi = u.floatConst(18446744073709551616.0, a.Bits).(FloatV).T
				} else {
					hi = u.floatConst(float64(uint64(1)<<uint(w)), a.Bits).(FloatV).T
				}
			}
			ok := And(Not(FPIsNaN(a.T)), FPCmp("fp.gt", a.T, lo), FPCmp("fp.lt", a.T, hi))
			if sg {
				ok = And(Not(FPIsNaN(a.T)), FPCmp("fp.geq", a.T, lo), FPCmp("fp.lt", a.T, hi))
			}
			if !u.require(st, fr, ok, "float-to-int", in) {
				return nil, false
			}
			var bv *Term
			if sg {
				bv = FPToSBV(a.T, w)
			} else {
				bv = FPToUBV(a.T, w)
			}
			if s.K == KInt {
				return IntV{BVToInt(bv, sg), sg}, true
			}
			return IntV{bv, sg}, true
		}
	case SliceV: // []byte -> string
		if isStringType(to) {
			r, ok := u.copyBytes(st, a.R, a.Off, a.Len, "str")
			if !ok {
				return nil, false
			}
			return StringV{R: r, Off: IntK(0), Len: a.Len}, true
		}
		if _, ok := to.Underlying().(*types.Slice); ok {
			return a, true
		}
	case StringV:
		if sl, ok := to.Underlying().(*types.Slice); ok && isByteType(sl.Elem()) {
			r, ok := u.copyBytes(st, a.R, a.Off, a.Len, "bytes")
			if !ok {
				return nil, false
			}
			return SliceV{r, IntK(0), a.Len, a.Len}, true
		}
		if isStringType(to) {
			return a, true
		}
	}
	u.unsupported("convert %s -> %s (%T)", from, to, x)
	return nil, false
}

// copyBytes allocates a fresh byte region holding a copy of n bytes of src.
func (u *Unit) copyBytes(st *State, src *Region, off, n *Term, name string) (*Region, bool) {
	r := u.newRegion(types.Typ[types.Uint8], name)
	r.fresh = true
	r.zero = true
	st.alloc = IntAdd(st.alloc, n)
	if src == nil {
		return r, true
	}
	if src.concrete {
		rs := u.rstate(st, src)
		if off.C == nil || n.C == nil {
			u.unsupported("copy out of a concrete region with symbolic bounds")
			return nil, false
		}
		var m Mem = zeroMem{BVSort(8)}
		for i := int64(0); i < n.C.Int64(); i++ {
			m = storeMem{m, IntK(i), rs.elems[off.C.Int64()+i].(IntV).T}
		}
		u.setComp(st, r, "", m)
		return r, true
	}
	u.setComp(st, r, "", copyMem{zeroMem{BVSort(8)}, IntK(0), n, u.compMem(st, src, "", BVSort(8)), off})
	return r, true
}

func (u *Unit) typeAssert(st *State, fr *Frame, in *ssa.TypeAssert) ([]Outcome, bool) {
	x := u.val(st, fr, in.X)
	mk := func(s *State, v Value, ok *Term) Outcome {
		if in.CommaOk {
			return Outcome{s, TupleV{v, BoolV{ok}}}
		}
		return Outcome{s, v}
	}
	_, toIface := in.AssertedType.Underlying().(*types.Interface)
	switch iv := x.(type) {
	case IfaceV:
		match := false
		if iv.Typ != nil {
			if toIface {
				match = types.Implements(iv.Typ, in.AssertedType.Underlying().(*types.Interface))
			} else {
				match = types.Identical(iv.Typ, in.AssertedType)
			}
		}
		if match {
			if toIface {
				return []Outcome{mk(st, iv, True)}, true
			}
			return []Outcome{mk(st, iv.V, True)}, true
		}
		if !in.CommaOk {
			u.require(st, fr, False, "type-assert", in)
			return nil, true
		}
		return []Outcome{mk(st, u.zero(st, in.AssertedType), False)}, true
	case SymIface:
		var outs []Outcome
		var anyMatch *Term = False
		for _, T := range u.eng.implementers(iv.Typ) {
			match := false
			if toIface {
				match = types.Implements(T, in.AssertedType.Underlying().(*types.Interface))
			} else {
				match = types.Identical(T, in.AssertedType)
			}
			if !match {
				continue
			}
			c := Eq(iv.Tag, IntK(int64(u.eng.typeID(T))))
			anyMatch = Or(anyMatch, c)
			kt := u.knownTag(st, iv.Tag, iv.Typ)
			if kt != nil && kt != c {
				continue // the path already fixes a different dynamic type
			}
			s2 := st.clone()
			s2.assume(c)
			if kt == nil && !(u.specMode > 0 && specNoPrune) && !u.feasible(s2) {
				continue
			}
			var v Value
			if toIface {
				v = IfaceV{Typ: T, V: u.readElem(s2, iv.R, iv.Idx, iv.Path+"@"+relType(T), T)}
			} else {
				v = u.readElem(s2, iv.R, iv.Idx, iv.Path+"@"+relType(T), T)
			}
			outs = append(outs, mk(s2, v, True))
		}
		if !in.CommaOk {
			// a failing single-value assertion panics
			if !u.require(st.clone(), fr, anyMatch, "type-assert", in) {
			}
			return outs, true
		}
		s3 := st.clone()
		s3.assume(Not(anyMatch))
		if kt := u.knownTag(st, iv.Tag, iv.Typ); kt != nil {
			if len(outs) == 0 {
				outs = append(outs, mk(s3, u.zero(s3, in.AssertedType), False))
			}
			return outs, true
		}
		if (u.specMode > 0 && specNoPrune) || u.feasible(s3) {
			outs = append(outs, mk(s3, u.zero(s3, in.AssertedType), False))
		}
		return outs, true
	case ErrV:
		u.unsupported("type assertion on error value")
		return nil, false
	}
	u.unsupported("typeassert on %T", x)
	return nil, false
}

// knownTag: if the path condition contains, as a literal conjunct, the equation fixing the dynamic type of an
// interface value with tag `tag`, returns that equation (syntactic fast path that saves solver queries).
func (u *Unit) knownTag(st *State, tag *Term, it types.Type) *Term {
	if tag.C != nil {
		return nil
	}
	cands := map[*Term]bool{}
	for _, T := range u.eng.implementers(it) {
		cands[Eq(tag, IntK(int64(u.eng.typeID(T))))] = true
	}
	for i := len(st.pc) - 1; i >= 0; i-- {
		if cands[st.pc[i]] {
			return st.pc[i]
		}
	}
	return nil
}

func (u *Unit) enter(st *State, fr *Frame, b *ssa.BasicBlock) []Outcome {
	if u.aborted != "" {
		return nil
	}
	if fr.top && !u.bounded {
		// normal exit of an annotated loop (its condition became false): exit clauses are obligations here
		if fr.from != nil {
			if lc := u.loopContract(fr, fr.from); lc != nil && !lc.body[b] && len(lc.Exits) > 0 {
				for _, cl := range lc.Exits {
					g, err := u.invEnv(st, fr, fr.from).safeFormula(cl, true)
					if err != nil {
						u.specError(fmt.Sprintf("loop %d exit %s", lc.Ord, cl.Label), err)
						return nil
					}
					u.oblige(st, fmt.Sprintf("%s#loop%d.exit:%s", fnKey(u.fn), lc.Ord, cl.Label), "loop-exit", u.invTags(cl), g, cl.Text)
					st.assume(g)
				}
			}
		}
		// a `break`: an edge from inside the body to the block the loop's own condition exits to. The exit clauses
		// are about leaving the loop and continuing after it, whichever way (a `return` inside the loop goes elsewhere).
		if fr.from != nil && fr.ct != nil {
			for _, lc := range fr.ct.Loops {
				if lc.floating || lc.header == nil || len(lc.Exits) == 0 || lc.header == fr.from || !(lc.body[fr.from] || lc.header.Dominates(fr.from)) || lc.body[b] || fr.from == b {
					continue
				}
				isExit := false
				for _, succ := range lc.header.Succs {
					isExit = isExit || (succ == b && !lc.body[succ])
				}
				if !isExit {
					continue
				}
				for _, cl := range lc.Exits {
					g, err := u.invEnv(st, fr, lc.header).safeFormula(cl, true)
					if err != nil {
						u.specError(fmt.Sprintf("loop %d exit %s", lc.Ord, cl.Label), err)
						return nil
					}
					u.oblige(st, fmt.Sprintf("%s#loop%d.exit:%s", fnKey(u.fn), lc.Ord, cl.Label), "loop-exit", u.invTags(cl), g, cl.Text)
					st.assume(g)
				}
			}
		}
		if lc := u.loopContract(fr, b); lc != nil {
			return u.cutLoop(st, fr, b, lc)
		}
	}
	if !fr.top && !u.bounded && u.specMode == 0 {
		// a loop of an inlined helper annotated by the unit's contract (extracted loop)
		if fr.from != nil {
			if lc := u.loopContract(fr, fr.from); lc != nil && lc.floating && !lc.body[b] && len(lc.Exits) > 0 {
				for _, cl := range lc.Exits {
					g, err := u.invEnv(st, fr, fr.from).safeFormula(cl, true)
					if err != nil {
						u.specError(fmt.Sprintf("loop %d exit %s", lc.Ord, cl.Label), err)
						return nil
					}
					u.oblige(st, fmt.Sprintf("%s#loop%d.exit:%s", fnKey(u.fn), lc.Ord, cl.Label), "loop-exit", u.invTags(cl), g, cl.Text)
					st.assume(g)
				}
			}
		}
		if lc := u.loopContract(fr, b); lc != nil && lc.floating {
			return u.cutLoop(st, fr, b, lc)
		}
	}
	if fr.symBranch {
		fr.visits[b]++
	}
	fr.symBranch = false
	if fr.visits[b] > u.K+1 {
		u.trunc++
		if !u.bounded && fr.top {
			u.oblige(st, fmt.Sprintf("%s#unwind:block%d", fnKey(u.fn), b.Index), "unwind", u.safetyTags("unwind"), False, "")
		} else if !u.bounded {
			u.unsupported("loop without invariant in inlined callee %s exceeds unroll bound", fnKey(fr.fn))
		}
		return nil
	}
	return u.run(st, fr, b, 0)
}

func (u *Unit) newFrame(fn *ssa.Function, args []Value, depth int, st *State) *Frame {
	fr := &Frame{fn: fn, regs: map[ssa.Value]Value{}, visits: map[*ssa.BasicBlock]int{}, depth: depth,
		loopSeen: map[*ssa.BasicBlock]bool{}, loopDec: map[*ssa.BasicBlock]*Term{}, loopSnap: map[*ssa.BasicBlock]*State{}, entryArgs: args}
	for i, p := range fn.Params {
		fr.regs[p] = args[i]
	}
	return fr
}

func (u *Unit) callFn(st *State, fn *ssa.Function, args []Value, binds []Value, depth int, site string, caller ...*Frame) []Outcome {
	if depth > 16 {
		u.unsupported("call depth")
		return nil
	}
	if len(fn.Blocks) == 0 {
		u.unsupported("call of body-less function %s", fn)
		return nil
	}
	fr := u.newFrame(fn, args, depth, st)
	fr.site = site
	if len(caller) == 1 {
		fr.caller = caller[0]
	}
	for i, fv := range fn.FreeVars {
		fr.regs[fv] = binds[i]
	}
	return u.enter(st, fr, fn.Blocks[0])
}

func f32bits(f float32) uint32 { return mathFloat32bits(f) }
func f64bits(f float64) uint64 { return mathFloat64bits(f) }
