#!/bin/sh
# ingest2.sh <dir under /tmp/wt/out> <seed id> <props...>: copies a sub-agent's deliverables into seeded/<id>, validates them
# (tools/validate_seed.sh) and runs the given checks against the seed on a scratch copy (tools/try_seed.sh).
cd "$(dirname "$0")/.."
c="$1"; id="$2"; shift 2
mkdir -p seeded/$id
cp /tmp/wt/out/$c/patch.diff /tmp/wt/out/$c/meta.json /tmp/wt/out/$c/demo_test.go seeded/$id/ || exit 2
tools/validate_seed.sh "$(pwd)/seeded/$id"
tools/try_seed.sh seeded/$id "$@" | cut -c1-200
