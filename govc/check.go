package main

import (
	"os/exec"
	"crypto/sha1"
	"encoding/json"
	"fmt"
	"os"
	"path/filepath"
	"sort"
	"strings"
	"sync"
	"time"
)

type Finding struct {
	Property   string   `json:"property"`
	Properties []string `json:"properties,omitempty"` // further properties whose checks meet the same finding
	Function   string   `json:"function"`
	Obligation string `json:"obligation"`
	Predicate  string `json:"predicate"`
	Witness    string `json:"witness_test"`
	What       string `json:"what"`
}
type Fixed struct {
	Property string `json:"property"`
	Commit   string `json:"commit"`
	What     string `json:"what"`
}
type FindingsFile struct {
	Findings []Finding `json:"findings"`
	Fixed    []Fixed   `json:"fixed"`
}

func (f Finding) forProp(p string) bool {
	return f.Property == p || hasTag(f.Properties, p)
}

func loadFindings(path string) (*FindingsFile, error) {
	ff := &FindingsFile{}
	b, err := os.ReadFile(path)
	if err != nil {
		if os.IsNotExist(err) {
			return ff, nil
		}
		return nil, err
	}
	if err := json.Unmarshal(b, ff); err != nil {
		return nil, fmt.Errorf("%s: %v", path, err)
	}
	return ff, nil
}

var safetyKinds = map[string]bool{"index": true, "slice": true, "nil-deref": true, "makeslice": true, "div-by-zero": true, "float-to-int": true,
	"type-assert": true, "unwind": true, "negative-shift": true, "explicit-panic": true, "nil-func-call": true, "assert": true}

// counts decides whether an obligation belongs to the projection of property prop.
func counts(o *Obligation, ct *Contract, prop string) bool {
	if prop == "" {
		return true
	}
	switch {
	case o.Kind == "cover" || o.Kind == "subset" || o.Kind == "int-range":
		return true
	case o.Kind == "frame":
		return prop == "C18"
	case o.Kind == "nocap":
		return prop == "C06"
	case safetyKinds[o.Kind]:
		return ct != nil && hasTag(ct.SafetyTags, prop)
	}
	if len(o.Tags) == 0 {
		return true
	}
	for _, t := range o.Tags {
		if t == prop || t == "support" || t == "*" {
			return true
		}
		if ct != nil && lemmaSupport[ct.Key][t] {
			return true
		}
	}
	return false
}

// lemmaSupport: callee key -> tags of the clauses that this property's proved lemmas used from that callee.
var lemmaSupport = map[string]map[string]bool{}

var thoroughTier bool

func relevant(ct *Contract, prop string) bool {
	if ct.Slow && !thoroughTier {
		return false
	}
	if prop == "" {
		return true
	}
	if ct.Trusted || ct.Rec {
		return false
	}
	if hasTag(ct.SafetyTags, prop) {
		return true
	}
	for _, cl := range ct.Ensures {
		if hasTag(cl.Tags, prop) {
			return true
		}
	}
	if ct.AllocBound != nil && hasTag(ct.AllocBound.Tags, prop) {
		return true
	}
	if prop == "C18" {
		return true
	}
	return false
}

type CheckOpts struct {
	Prop     string
	Tier     string
	Repo     string
	VerifDir string
	Only     string // restrict to one function (debugging)
	Verbose  bool
	KeepSMT  bool
	Seed     int
	NoReplay bool
}

type namedResult struct {
	Name    string
	Kind    string
	Func    string
	Clause  string
	Status  string // discharged | failed | cover-ok | cover-vacuous
	Solver  string
	Ms      int64
	Worst   *Obligation
	N       int
	Support bool
}

func RunCheck(opts CheckOpts) int {
	t0 := time.Now()
	timeout := 60 // generous: an obligation that times out is reported as a violation, and a loaded machine must not cause one
	needTwo := false
	if opts.Tier == "thorough" {
		timeout, needTwo = 240, true
		thoroughTier = true
	}
	if t := os.Getenv("GOVC_TIMEOUT"); t != "" {
		fmt.Sscanf(t, "%d", &timeout)
	}
	workDirRoot = filepath.Join(opts.VerifDir, ".work", fmt.Sprintf("%d", os.Getpid()))
	os.MkdirAll(workDirRoot, 0o755)
	if !opts.KeepSMT {
		defer os.RemoveAll(workDirRoot)
	}
	eng, err := LoadEngine(opts.Repo)
	if err != nil {
		fmt.Fprintln(os.Stderr, "govc: cannot load", opts.Repo+":", err)
		// If the package builds without the hooks but not with them, the contracts / ghost functions name something
		// the code no longer has: the same situation as a contract that does not resolve — a failed obligation.
		cmd := exec.Command("go", "build", "./...")
		cmd.Dir = opts.Repo
		cmd.Env = append(os.Environ(), "GOFLAGS=-mod=mod", "GOPROXY=off", "GOSUMDB=off", "GOTOOLCHAIN=local")
		if out, berr := cmd.CombinedOutput(); berr == nil {
			fmt.Printf("VIOLATION property=%s replay=%s contract-resolution-failed hooks-do-not-build-against-this-source no-failing-input-found\n", opts.Prop,
				writeNote(opts, "contract-resolution", "the package builds without -tags verif but not with it:\n"+err.Error()))
			return 1
		} else {
			fmt.Fprintln(os.Stderr, "govc: the repository does not build:", string(out))
		}
		return 2
	}
	for _, le := range eng.loadErrs {
		fmt.Fprintln(os.Stderr, "govc: contract error:", le)
	}
	// a contract that does not resolve against the current source is a failed obligation, not a pass — for the
	// properties that contract carries clauses for (and, through #subset, for every function that calls it)
	var relErrs []string
	for _, le := range eng.loadErrInfo {
		if opts.Prop == "" || len(le.tags) == 0 || hasTag(le.tags, opts.Prop) {
			relErrs = append(relErrs, le.msg)
		}
	}
	if len(relErrs) > 0 {
		fmt.Printf("VIOLATION property=%s replay=%s contract-resolution-failed no-failing-input-found\n", opts.Prop, writeNote(opts, "contract-resolution", strings.Join(relErrs, "\n")))
	}
	ff, err := loadFindings(filepath.Join(opts.VerifDir, "known_findings.json"))
	if err != nil {
		fmt.Fprintln(os.Stderr, "govc:", err)
		return 2
	}
	var findings []Finding
	for _, f := range ff.Findings {
		if f.forProp(opts.Prop) || opts.Prop == "" {
			f.Property = opts.Prop
			findings = append(findings, f)
		}
	}

	// ---- run units (closure over callee contracts used) ----
	var mu sync.Mutex
	results := map[string]*UnitResult{}
	scheduled := map[string]bool{}
	var wg sync.WaitGroup
	sem := make(chan struct{}, 12)
	var schedule func(ct *Contract)
	schedule = func(ct *Contract) {
		mu.Lock()
		if scheduled[ct.Key] || ct.Trusted || (ct.Rec && !ct.Monotone) {
			mu.Unlock()
			return
		}
		scheduled[ct.Key] = true
		mu.Unlock()
		wg.Add(1)
		go func() {
			defer wg.Done()
			sem <- struct{}{}
			var r *UnitResult
			if ct.Rec {
				r = eng.VerifyMonotone(ct, opts.Prop)
			} else {
				r = eng.Verify(ct, opts.Prop, findings)
			}
			<-sem
			mu.Lock()
			results[ct.Key] = r
			mu.Unlock()
			for callee := range r.UsedCallee {
				if c2 := eng.contracts[callee]; c2 != nil {
					schedule(c2)
				}
			}
		}()
	}
	for _, ct := range eng.order {
		if opts.Only != "" {
			if ct.Key == opts.Only {
				schedule(ct)
			}
			continue
		}
		if relevant(ct, opts.Prop) {
			schedule(ct)
		}
	}
	wg.Wait()

	// ---- lemma support ----
	// A proved lemma of this property (round trip, re-encode) is a statement over the contracts of the functions it
	// calls. The clauses of those callees that the lemma used are therefore carried by this property too: they are
	// proved by this check (not only assumed from the check of the property they are tagged with), together with
	// the loop invariants of the same tags. Known findings recorded against such a clause under another property
	// apply here as well (and are printed), so the unit is run again with them.
	lemmaSupport = map[string]map[string]bool{}
	if opts.Prop != "" && opts.Only == "" {
		var work []string
		for k := range results {
			ct := eng.contracts[k]
			if ct == nil || !ct.Lemma || ct.Trusted || !relevant(ct, opts.Prop) {
				continue
			}
			own := false
			for _, cl := range ct.Ensures {
				own = own || hasTag(cl.Tags, opts.Prop)
			}
			if !own {
				continue // (for C18 every unit is relevant; only lemmas that state this property count)
			}
			work = append(work, k)
		}
		sort.Strings(work)
		seen := map[string]bool{}
		for len(work) > 0 {
			k := work[0]
			work = work[1:]
			r := results[k]
			if seen[k] || r == nil {
				continue
			}
			seen[k] = true
			for callee, labels := range r.UsedCallee {
				c2 := eng.contracts[callee]
				if c2 == nil || c2.Trusted || c2.Rec || c2.Lemma {
					continue
				}
				for _, cl := range c2.Ensures {
					if !labels[cl.Label] {
						continue
					}
					for _, t := range cl.Tags {
						if lemmaSupport[callee] == nil {
							lemmaSupport[callee] = map[string]bool{}
						}
						lemmaSupport[callee][t] = true
					}
				}
				work = append(work, callee) // and, transitively, what that callee's own proof rests on
			}
		}
		for callee := range lemmaSupport {
			var add []Finding
			for _, f := range ff.Findings {
				if f.Function != callee || f.forProp(opts.Prop) {
					continue
				}
				dup := false
				for _, g := range add {
					dup = dup || g.Obligation == f.Obligation
				}
				if !dup {
					f.Property, f.Properties = opts.Prop, nil
					add = append(add, f)
				}
			}
			if len(add) > 0 {
				findings = append(findings, add...)
				results[callee] = eng.Verify(eng.contracts[callee], opts.Prop, findings)
			}
		}
	}
	tExec := time.Since(t0)

	// ---- discharge ----
	var all []*Obligation
	var keys []string
	for k := range results {
		keys = append(keys, k)
	}
	sort.Strings(keys)
	for _, k := range keys {
		r := results[k]
		ct := eng.contracts[k]
		for _, o := range r.Obls {
			if counts(o, ct, opts.Prop) {
				all = append(all, o)
			}
		}
	}
	var pw sync.WaitGroup
	psem := make(chan struct{}, 16)
	for _, o := range all {
		if o.Res != nil {
			continue
		}
		o := o
		pw.Add(1)
		go func() {
			defer pw.Done()
			psem <- struct{}{}
			defer func() { <-psem }()
			if o.Cover && o.Pre != nil {
				// call cover: only a satisfiable pre-state with an unsatisfiable post-state is a vacuous contract
				if r := Prove(o.Name+".pre", o.Pre, False, nil, 10, false); r.Status != "sat" {
					o.Res = &ProveResult{Status: "sat", Solver: r.Solver, Ms: r.Ms, Output: "pre-state not satisfiable (path was infeasible before the call)"}
					return
				}
				o.Res = Prove(o.Name, o.Hyps, False, nil, 10, false)
				return
			}
			if o.Cover {
				// satisfiable hypotheses expected; Prove checks hyps ⊨ false
				o.Res = Prove(o.Name, o.Hyps, False, nil, 10, false)
				return
			}
			if o.CaseTerm == nil {
				o.Res = Prove(o.Name, o.Hyps, o.Goal, o.GetVals, timeout, needTwo)
				return
			}
			// proof by cases: try the whole goal briefly, then one query per case (all must be unsat)
			if r := Prove(o.Name, o.Hyps, o.Goal, o.GetVals, 2, false); r.Status == "unsat" || r.Status == "sat" {
				o.Res = r
				return
			}
			var total int64
			var last *ProveResult
			for c := o.CaseLo - 1; c <= o.CaseHi; c++ {
				var ch *Term
				if c < o.CaseLo {
					ch = Or(IntLt(o.CaseTerm, IntK(int64(o.CaseLo))), IntLt(IntK(int64(o.CaseHi)), o.CaseTerm))
				} else {
					ch = Eq(o.CaseTerm, IntK(int64(c)))
				}
				r := Prove(fmt.Sprintf("%s.case%d", o.Name, c), append(append([]*Term(nil), o.Hyps...), ch), o.Goal, o.GetVals, timeout, needTwo)
				total += r.Ms
				last = r
				if r.Status != "unsat" {
					r.Ms = total
					o.Res = r
					return
				}
			}
			last.Ms = total
			last.Solver += "/cases"
			o.Res = last
		}()
	}
	pw.Wait()

	// ---- aggregate by obligation name ----
	byName := map[string]*namedResult{}
	var names []string
	backend := map[string]int{}
	var solverMs int64
	covers, coversSat := 0, 0
	for _, o := range all {
		nr := byName[o.Name]
		if nr == nil {
			nr = &namedResult{Name: o.Name, Kind: o.Kind, Func: o.Func, Clause: o.Clause, Status: "discharged", Support: hasTag(o.Tags, "support")}
			byName[o.Name] = nr
			names = append(names, o.Name)
		}
		nr.N++
		solverMs += o.Res.Ms
		if o.Cover {
			covers++
			switch o.Res.Status {
			case "sat":
				coversSat++
				nr.Status = "cover-ok" // one satisfiable path through the cut point is enough
			case "unsat":
				if nr.Status != "cover-ok" {
					nr.Status, nr.Worst = "cover-vacuous", o
				}
			default:
				if nr.Status == "discharged" {
					nr.Status = "cover-unknown"
				}
			}
			continue
		}
		if o.Res.Status == "unsat" {
			backend[o.Res.Solver]++
			if nr.Solver == "" || o.Res.Ms > nr.Ms {
				nr.Solver, nr.Ms = o.Res.Solver, o.Res.Ms
			}
		} else {
			if nr.Status != "failed" || (nr.Worst != nil && nr.Worst.Res.Status != "sat" && o.Res.Status == "sat") {
				nr.Worst = o
			}
			nr.Status = "failed"
		}
	}
	sort.Strings(names)

	// ---- report ----
	violations := 0
	nObl, nDis := 0, 0
	var samples []map[string]interface{}
	var failedNames []string
	replayDir := filepath.Join(opts.VerifDir, "replays", opts.Prop)
	if opts.Only == "" {
		os.RemoveAll(replayDir)
	}
	for _, n := range names {
		nr := byName[n]
		switch nr.Status {
		case "cover-ok", "cover-unknown":
			continue
		case "cover-vacuous":
			nObl++
			violations++
			failedNames = append(failedNames, n)
			path := writeReplay(replayDir, opts, nr, "vacuous: the hypotheses at this cut point are contradictory", nil)
			fmt.Printf("VIOLATION property=%s replay=%s obligation=%q vacuous-contract no-failing-input-found\n", opts.Prop, path, n)
			continue
		}
		nObl++
		if nr.Status == "discharged" {
			nDis++
			if len(samples) < 12 && nr.Kind != "int-range" {
				samples = append(samples, map[string]interface{}{"name": nr.Name, "kind": nr.Kind, "solver": nr.Solver, "ms": nr.Ms, "paths": nr.N})
			}
			continue
		}
		violations++
		failedNames = append(failedNames, n)
		rp := replayObligation(eng, opts, results[nr.Func], nr)
		path := writeReplay(replayDir, opts, nr, rp.Note, rp)
		suffix := ""
		if !rp.Confirmed {
			suffix = " no-failing-input-found"
		}
		fmt.Printf("VIOLATION property=%s replay=%s obligation=%q status=%s%s\n", opts.Prop, path, n, nr.Worst.Res.Status, suffix)
	}
	// ---- bounded stand-ins (execution of trusted contracts on generated inputs; never counted as proved) ----
	bouts, _, berr := RunBounded(eng, opts, findings)
	if berr != "" {
		violations++
		fmt.Printf("VIOLATION property=%s replay=%s obligation=%q bounded-harness-failed no-failing-input-found\n", opts.Prop, writeNote(opts, "bounded-harness", berr), "bounded-harness")
	}
	boundedCases := 0
	for _, bo := range bouts {
		boundedCases += bo.Cases
		seen := map[string]bool{}
		for _, f := range bo.Fails {
			if f.Known || seen[f.Clause] {
				continue
			}
			seen[f.Clause] = true
			violations++
			name := bo.Fn + "#bounded:" + f.Clause
			failedNames = append(failedNames, name)
			os.MkdirAll(replayDir, 0o755)
			path := filepath.Join(replayDir, fmt.Sprintf("%x", sha1.Sum([]byte(name)))[:12]+".json")
			seed := opts.Seed
			if seed == 0 {
				seed = 1
			}
			m := map[string]interface{}{"property": opts.Prop, "obligation": name, "function": bo.Fn, "kind": "bounded", "clause": f.Clause,
				"note":    "bounded stand-in: the trusted contract clause is false on the real function for this generated input",
				"input":   f.Desc,
				"bounded": map[string]interface{}{"function": bo.Fn, "case": f.Case, "seed": seed, "generator": bo.Gen},
				"cmd":     fmt.Sprintf("./check --replay %s", path)}
			jb, _ := json.MarshalIndent(m, "", " ")
			os.WriteFile(path, jb, 0o644)
			fmt.Printf("VIOLATION property=%s replay=%s obligation=%q status=bounded-counterexample\n", opts.Prop, path, name)
		}
	}
	var printed []string
	for _, f := range findings {
		if f.Property != opts.Prop {
			continue
		}
		dup := false
		for _, w := range printed {
			if w == f.What {
				dup = true
			}
		}
		if dup {
			continue
		}
		present, note := replayWitness(opts, f)
		if present {
			fmt.Printf("KNOWN-FINDING: property=%s %s\n", f.Property, f.What)
			printed = append(printed, f.What)
		} else if note != "" {
			fmt.Fprintf(os.Stderr, "govc: known finding %q did not reproduce: %s\n", f.What, note)
		}
	}

	// ---- evidence ----
	var funcs, uncovered, inlined []string
	inlSet := map[string]bool{}
	totalPaths, incQ := 0, 0
	for _, k := range keys {
		r := results[k]
		funcs = append(funcs, k)
		totalPaths += r.Paths
		incQ += r.IncQueries
		if len(r.Unsup) > 0 || r.Aborted != "" {
			uncovered = append(uncovered, k)
		}
		for _, i := range r.Inlined {
			inlSet[i] = true
		}
	}
	for k := range inlSet {
		inlined = append(inlined, k)
	}
	sort.Strings(inlined)
	var assumedExt []string
	for k := range eng.assumed {
		assumedExt = append(assumedExt, k)
	}
	sort.Strings(assumedExt)
	var assumedPre []string
	for _, k := range keys {
		if ct := eng.contracts[k]; ct != nil {
			for _, cl := range ct.Requires {
				if cl.Assumed {
					assumedPre = append(assumedPre, k+": "+cl.Text)
				}
			}
		}
	}
	var trusted, mathint []string
	for _, ct := range eng.order {
		if ct.Trusted {
			trusted = append(trusted, ct.Key)
		}
		if ct.MathInt && results[ct.Key] != nil {
			mathint = append(mathint, ct.Key)
		}
	}
	if len(samples) == 0 {
		samples = append(samples, map[string]interface{}{"name": "(none)"})
	}
	ev := map[string]interface{}{
		"property_id": opts.Prop, "tier": opts.Tier, "seed": opts.Seed, "level": "proof",
		"wall_s": time.Since(t0).Seconds(), "violations": violations,
		"coverage": map[string]interface{}{
			"obligations": nObl, "discharged": nDis,
			"checker_cmd":              fmt.Sprintf("bin/govc check --property %s --tier %s --repo %s", opts.Prop, opts.Tier, opts.Repo),
			"trusted_base":             trustedBase(assumedExt, trusted),
			"functions_under_contract": funcs,
			"inlined_without_contract": inlined,
			"obligation_instances":     len(all),
			"by_backend":               backend,
			"solver_time_s":            float64(solverMs) / 1000,
			"symbolic_execution_s":     tExec.Seconds(),
			"paths":                    totalPaths,
			"incremental_queries_not_evidence": incQ,
			"samples":                  samples,
			"vacuity":                  map[string]int{"covers": covers, "sat": coversSat},
			"known_findings_printed":   printed,
			"failed_obligations":       failedNames,
			"uncovered":                uncovered,
			"trusted_contracts":        trusted,
			"mathematical_int_assumed": mathint,
			"assumed_externals":        assumedExt,
			"assumed_wellformedness":   assumedPre,
			"bounded":                  boundedEvidence(bouts),
			"bounded_cases_executed_not_proof": boundedCases,
			"renamed_locals_recovered": eng.renameNotes,
		},
		"assumptions": assumptionList(assumedExt, trusted),
	}
	os.MkdirAll(filepath.Join(opts.VerifDir, "evidence"), 0o755)
	b, _ := json.MarshalIndent(ev, "", " ")
	if opts.Prop != "" && opts.Only == "" {
		os.WriteFile(filepath.Join(opts.VerifDir, "evidence", opts.Prop+".json"), b, 0o644)
	}
	fmt.Printf("govc: property=%s tier=%s functions=%d obligations=%d discharged=%d violations=%d covers=%d/%d wall=%.1fs (exec %.1fs, solver %.1fs)\n",
		opts.Prop, opts.Tier, len(funcs), nObl, nDis, violations, coversSat, covers, time.Since(t0).Seconds(), tExec.Seconds(), float64(solverMs)/1000)
	for _, bo := range bouts {
		nf, nk := 0, 0
		for _, f := range bo.Fails {
			if f.Known {
				nk++
			} else {
				nf++
			}
		}
		fmt.Printf("govc: bounded (not proof) %s: %d cases executed, %d skipped, %d clauses, %d failing reports, %d known-finding reports\n", bo.Fn, bo.Cases, bo.Skipped, len(bo.Clauses), nf, nk)
		if opts.Verbose {
			for _, f := range bo.Fails {
				fmt.Printf("        %s case=%d known=%v %s\n", f.Clause, f.Case, f.Known, f.Desc)
			}
			if len(bo.Unexec) > 0 {
				fmt.Printf("        not executable: %v\n", bo.Unexec)
			}
		}
	}
	if opts.Verbose {
		for _, n := range names {
			nr := byName[n]
			fmt.Printf("   %-13s %-7s %5dms ×%-3d %s\n", nr.Status, nr.Solver, nr.Ms, nr.N, nr.Name)
			if nr.Status == "failed" && nr.Worst != nil {
				out := nr.Worst.Res.Output
				if len(out) > 400 {
					out = out[:400] + "…"
				}
				fmt.Printf("        %s: %s\n", nr.Worst.Res.Status, strings.ReplaceAll(out, "\n", " "))
			}
		}
		for _, k := range keys {
			r := results[k]
			fmt.Printf("   unit %-55s paths=%d trunc=%d inc=%d inctime=%v wall=%v\n", k, r.Paths, r.Trunc, r.IncQueries, r.IncTime.Round(time.Millisecond), r.Wall.Round(time.Millisecond))
			if r.Aborted != "" {
				fmt.Printf("        aborted: %s\n", r.Aborted)
			}
			for _, s := range sortedKeys(r.Unsup) {
				fmt.Printf("        unsupported: %s ×%d\n", s, r.Unsup[s])
			}
		}
	}
	if debugQSites {
		type kv struct {
			k string
			v int
		}
		var l []kv
		for k, v := range qsites {
			l = append(l, kv{k, v})
		}
		sort.Slice(l, func(i, j int) bool { return l[i].v > l[j].v })
		for i, e := range l {
			if i < 15 {
				fmt.Printf("   qsite %6d %s\n", e.v, e.k)
			}
		}
	}
	if nObl == 0 {
		fmt.Fprintln(os.Stderr, "govc: no obligations were generated (vacuous check)")
		return 2
	}
	if violations > 0 || len(relErrs) > 0 {
		return 1
	}
	return 0
}

func boundedEvidence(bouts []*BoundedOutcome) interface{} {
	if len(bouts) == 0 {
		return []string{}
	}
	return bouts
}

func writeNote(opts CheckOpts, name, text string) string {
	dir := filepath.Join(opts.VerifDir, "replays", opts.Prop)
	os.MkdirAll(dir, 0o755)
	path := filepath.Join(dir, name+".json")
	b, _ := json.MarshalIndent(map[string]string{"property": opts.Prop, "obligation": name, "note": text}, "", " ")
	os.WriteFile(path, b, 0o644)
	return path
}

func trustedBase(assumedExt, trusted []string) []string {
	tb := []string{
		"go/types + go/ssa (x/tools v0.29.0) implement the Go specification; gc compiler/runtime agree (A1)",
		"z3 4.8.12, z3 5.1.0, cvc5 1.0.3 are sound (A2)",
		"govc itself: symbolic executor, memory model, contract evaluator (not verified)",
	}
	if len(assumedExt) > 0 {
		tb = append(tb, "external functions assumed total and effect-free (A6): "+strings.Join(assumedExt, ", "))
	}
	if len(trusted) > 0 {
		tb = append(tb, "trusted (unverified) contracts: "+strings.Join(trusted, ", "))
	}
	return tb
}

func assumptionList(assumedExt, trusted []string) []string {
	a := []string{
		"A3: no slice or string longer than 2^40 elements; int is 64 bit; int arithmetic is treated as mathematical only where the int-range obligations prove it coincides",
		"A4: pointer receivers listed under `modifies` start as zero values (new(T)); other inputs are arbitrary well-formed Go values",
		"A5: package-level error sentinels are distinct non-nil values",
		"closed world: interface values hold one of package rtcp's own implementing types",
		"partial correctness per clause: safety (no-panic) obligations are separate, tagged obligations",
		"frame conditions of callees are proved under C18 and assumed by the other properties' modular calls",
	}
	return a
}

type ReplayInfo struct {
	Confirmed bool
	Note      string
	Model     map[string]string
	GoTest    string
	Output    string
}

func writeReplay(dir string, opts CheckOpts, nr *namedResult, note string, rp *ReplayInfo) string {
	os.MkdirAll(dir, 0o755)
	h := fmt.Sprintf("%x", sha1.Sum([]byte(nr.Name)))[:12]
	path := filepath.Join(dir, h+".json")
	m := map[string]interface{}{"property": opts.Prop, "obligation": nr.Name, "function": nr.Func, "kind": nr.Kind, "clause": nr.Clause, "note": note,
		"cmd": fmt.Sprintf("./check --replay %s", path)}
	if nr.Worst != nil && nr.Worst.Res != nil {
		m["solver"] = nr.Worst.Res.Solver
		m["status"] = nr.Worst.Res.Status
		out := nr.Worst.Res.Output
		if len(out) > 6000 {
			out = out[:6000] + "…"
		}
		m["solver_output"] = out
		m["answers"] = nr.Worst.Res.Answers
	}
	if rp != nil {
		m["confirmed"] = rp.Confirmed
		m["model"] = rp.Model
		m["go_test"] = rp.GoTest
		m["replay_output"] = rp.Output
	}
	b, _ := json.MarshalIndent(m, "", " ")
	os.WriteFile(path, b, 0o644)
	return path
}
