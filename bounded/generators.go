//go:build verif

package rtcp

// Input generators for the bounded stand-ins (see /verif/govc/bounded.go and DESIGN.md §10). This file is injected
// into package rtcp through `go test -overlay`; it is never written to /repo. Each generator returns the
// parameters of the function under a `bounded` contract, receiver first. Case i of seed s is reproducible: the
// harness seeds rng with s*1000003+i.
//
// Bounds (quick tier; multiplied by 4 in the thorough tier): at most 5 report blocks per extended report, lists of
// at most 9 elements, buffers of at most 96 random octets, 59 TWCC statuses, 5 packets per list; every scalar field
// is drawn from its whole range, with the extremes favoured.

import (
	"fmt"
	"math/rand"
	"os"
	"reflect"
	"strconv"
	"strings"
)

// govcScale widens the size bounds (list lengths, block counts, buffer sizes); 1 in the quick tier, 4 in the
// thorough tier (GOVC_BOUNDED_SCALE).
var govcScale = func() int {
	if v, err := strconv.Atoi(os.Getenv("GOVC_BOUNDED_SCALE")); err == nil && v >= 1 {
		return v
	}
	return 1
}()

func govcU32(r *rand.Rand) uint32 {
	switch r.Intn(6) {
	case 0:
		return 0
	case 1:
		return 0xFFFFFFFF
	case 2:
		return uint32(1) << uint(r.Intn(32))
	}
	return r.Uint32()
}

func govcU16(r *rand.Rand) uint16 { return uint16(govcU32(r) >> uint(16*r.Intn(2))) }
func govcU8(r *rand.Rand) uint8   { return uint8(govcU32(r) >> uint(8*r.Intn(4))) }

func govcLen(r *rand.Rand) int {
	switch r.Intn(4) {
	case 0:
		return 0
	case 1:
		return 1 + r.Intn(2)
	}
	return r.Intn(10 * govcScale)
}

// govcBlock: a report block of kind k (0..7) with arbitrary field values; the XRHeader is arbitrary too, as it is
// for a block that was decoded earlier or built by hand (Marshal fills it in).
func govcBlock(r *rand.Rand, k int) ReportBlock {
	hdr := XRHeader{BlockType: BlockTypeType(govcU8(r)), TypeSpecific: TypeSpecificField(govcU8(r)), BlockLength: govcU16(r)}
	if r.Intn(2) == 0 {
		hdr = XRHeader{}
	}
	switch k {
	case 0, 1:
		n := govcLen(r)
		var cs []Chunk
		for i := 0; i < n; i++ {
			cs = append(cs, Chunk(govcU16(r)))
		}
		b := rleReportBlock{XRHeader: hdr, T: govcU8(r), SSRC: govcU32(r), BeginSeq: govcU16(r), EndSeq: govcU16(r), Chunks: cs}
		if k == 0 {
			v := LossRLEReportBlock(b)
			return &v
		}
		v := DuplicateRLEReportBlock(b)
		return &v
	case 2:
		n := govcLen(r)
		var ts []uint32
		for i := 0; i < n; i++ {
			ts = append(ts, govcU32(r))
		}
		return &PacketReceiptTimesReportBlock{XRHeader: hdr, T: govcU8(r), SSRC: govcU32(r), BeginSeq: govcU16(r), EndSeq: govcU16(r), ReceiptTime: ts}
	case 3:
		return &ReceiverReferenceTimeReportBlock{XRHeader: hdr, NTPTimestamp: uint64(govcU32(r))<<32 | uint64(govcU32(r))}
	case 4:
		n := govcLen(r)
		var rs []DLRRReport
		for i := 0; i < n; i++ {
			rs = append(rs, DLRRReport{SSRC: govcU32(r), LastRR: govcU32(r), DLRR: govcU32(r)})
		}
		return &DLRRReportBlock{XRHeader: hdr, Reports: rs}
	case 5:
		return &StatisticsSummaryReportBlock{XRHeader: hdr, LossReports: r.Intn(2) == 0, DuplicateReports: r.Intn(2) == 0, JitterReports: r.Intn(2) == 0,
			TTLorHopLimit: TTLorHopLimitType(r.Intn(4)), SSRC: govcU32(r), BeginSeq: govcU16(r), EndSeq: govcU16(r), LostPackets: govcU32(r),
			DupPackets: govcU32(r), MinJitter: govcU32(r), MaxJitter: govcU32(r), MeanJitter: govcU32(r), DevJitter: govcU32(r),
			MinTTLOrHL: govcU8(r), MaxTTLOrHL: govcU8(r), MeanTTLOrHL: govcU8(r), DevTTLOrHL: govcU8(r)}
	case 6:
		return &VoIPMetricsReportBlock{XRHeader: hdr, SSRC: govcU32(r), LossRate: govcU8(r), DiscardRate: govcU8(r), BurstDensity: govcU8(r),
			GapDensity: govcU8(r), BurstDuration: govcU16(r), GapDuration: govcU16(r), RoundTripDelay: govcU16(r), EndSystemDelay: govcU16(r),
			SignalLevel: govcU8(r), NoiseLevel: govcU8(r), RERL: govcU8(r), Gmin: govcU8(r), RFactor: govcU8(r), ExtRFactor: govcU8(r),
			MOSLQ: govcU8(r), MOSCQ: govcU8(r), RXConfig: govcU8(r), JBNominal: govcU16(r), JBMaximum: govcU16(r), JBAbsMax: govcU16(r)}
	default:
		n := govcLen(r)
		if r.Intn(3) != 0 {
			n = 4 * (n / 2)
		}
		bs := make([]byte, n)
		r.Read(bs)
		t := BlockTypeType(0)
		if r.Intn(4) != 0 {
			t = BlockTypeType(8 + r.Intn(248))
		}
		return &UnknownReportBlock{XRHeader: XRHeader{BlockType: t, TypeSpecific: TypeSpecificField(govcU8(r)), BlockLength: hdr.BlockLength}, Bytes: bs}
	}
}

func govcXR(r *rand.Rand, i int) ExtendedReport {
	x := ExtendedReport{SenderSSRC: govcU32(r)}
	n := r.Intn(6 * govcScale)
	if i < 8 {
		// the first cases: one block of each kind
		x.Reports = []ReportBlock{govcBlock(r, i)}
		return x
	}
	for j := 0; j < n; j++ {
		x.Reports = append(x.Reports, govcBlock(r, r.Intn(8)))
	}
	return x
}

// genXR: receiver of ExtendedReport.Marshal / MarshalSize and argument of the XR lemmas.
func genXR(r *rand.Rand, i int) ExtendedReport { return govcXR(r, i) }

// genWireSize: an extended report by value or a pointer to a report block.
func genWireSize(r *rand.Rand, i int) interface{} {
	if i%3 == 0 {
		return govcXR(r, i/3)
	}
	return govcBlock(r, i%8)
}

// genWrite: a byte slice or an extended report (block headers set up as Marshal does), and a buffer that is
// exactly large enough, larger, or too small.
func genWrite(r *rand.Rand, i int) (*packetBuffer, interface{}) {
	var v interface{}
	need := 0
	if i%4 == 0 {
		bs := make([]byte, r.Intn(13))
		r.Read(bs)
		v, need = bs, len(bs)
	} else {
		x := govcXR(r, i/4)
		for _, p := range x.Reports {
			p.setupBlockHeader()
		}
		v, need = x, 4+specXRBlocksLen(x.Reports, len(x.Reports))
	}
	n := need
	switch r.Intn(4) {
	case 0:
		n = need + 1 + r.Intn(9)
	case 1:
		if need > 0 {
			n = r.Intn(need)
		}
	}
	buf := make([]byte, n)
	if r.Intn(2) == 0 {
		r.Read(buf) // stale content must be overwritten (except the reserved octet of a VoIP block)
	}
	return &packetBuffer{bytes: buf}, v
}

// genRead: arbitrary octets (with a bias towards lengths that fit the target) and a zero-valued target of each
// kind the decoder reads into.
func genRead(r *rand.Rand, i int) (*packetBuffer, interface{}) {
	k := i % 10
	var v interface{}
	fixed, elem := 0, 0
	switch k {
	case 0:
		v, fixed, elem = new(LossRLEReportBlock), 12, 2
	case 1:
		v, fixed, elem = new(DuplicateRLEReportBlock), 12, 2
	case 2:
		v, fixed, elem = new(PacketReceiptTimesReportBlock), 12, 4
	case 3:
		v, fixed = new(ReceiverReferenceTimeReportBlock), 12
	case 4:
		v, fixed, elem = new(DLRRReportBlock), 4, 12
	case 5:
		v, fixed = new(StatisticsSummaryReportBlock), 40
	case 6:
		v, fixed = new(VoIPMetricsReportBlock), 36
	case 7:
		v, fixed, elem = new(UnknownReportBlock), 4, 1
	case 8:
		v, fixed = new(XRHeader), 4
	default:
		v, fixed = new(uint32), 4
	}
	n := fixed + elem*govcLen(r)
	switch r.Intn(4) {
	case 0:
		n = r.Intn(97 * govcScale)
	case 1:
		n += r.Intn(5)
	}
	buf := make([]byte, n)
	r.Read(buf)
	if r.Intn(8) == 0 {
		for j := range buf {
			buf[j] = 0xFF
		}
	}
	return &packetBuffer{bytes: buf}, v
}

// genRaw: an octet string for ExtendedReport.Unmarshal-based lemmas: either the encoding of a generated report
// (possibly with a few octets flipped or cut) or noise behind a plausible header.
func genRaw(r *rand.Rand, i int) []byte {
	x := govcXR(r, i)
	raw, err := x.Marshal()
	if err != nil || r.Intn(5) == 0 {
		raw = make([]byte, 4*r.Intn(24))
		r.Read(raw)
		if len(raw) >= 4 {
			raw[0], raw[1] = 0x80, 207
			raw[2], raw[3] = byte((len(raw)/4-1)>>8), byte(len(raw)/4-1)
		}
		return raw
	}
	switch r.Intn(4) {
	case 0:
		for j := 0; j < 1+r.Intn(3) && len(raw) > 0; j++ {
			raw[r.Intn(len(raw))] ^= byte(1 << uint(r.Intn(8)))
		}
	case 1:
		raw = raw[:r.Intn(len(raw)+1)]
	}
	return raw
}

// govcDescribe renders the inputs of a case (pointers inside interfaces are followed).
func govcDescribe(args ...interface{}) string {
	var parts []string
	for _, a := range args {
		parts = append(parts, govcShow(reflect.ValueOf(a), 0))
	}
	s := strings.Join(parts, " | ")
	if len(s) > 1500 {
		s = s[:1500] + "…"
	}
	return s
}

func govcShow(v reflect.Value, depth int) string {
	if !v.IsValid() {
		return "nil"
	}
	if depth > 6 {
		return "…"
	}
	switch v.Kind() {
	case reflect.Ptr, reflect.Interface:
		if v.IsNil() {
			return "nil"
		}
		if v.Kind() == reflect.Ptr {
			return "&" + govcShow(v.Elem(), depth+1)
		}
		return govcShow(v.Elem(), depth+1)
	case reflect.Struct:
		var fs []string
		for i := 0; i < v.NumField(); i++ {
			fs = append(fs, v.Type().Field(i).Name+":"+govcShow(v.Field(i), depth+1))
		}
		return v.Type().Name() + "{" + strings.Join(fs, " ") + "}"
	case reflect.Slice:
		if v.Type().Elem().Kind() == reflect.Uint8 {
			return fmt.Sprintf("%x(len %d)", v.Bytes(), v.Len())
		}
		var es []string
		for i := 0; i < v.Len(); i++ {
			es = append(es, govcShow(v.Index(i), depth+1))
		}
		return "[" + strings.Join(es, " ") + "]"
	case reflect.Bool:
		return fmt.Sprint(v.Bool())
	case reflect.Uint8, reflect.Uint16, reflect.Uint32, reflect.Uint64, reflect.Uint:
		return fmt.Sprintf("%#x", v.Uint())
	case reflect.Int, reflect.Int8, reflect.Int16, reflect.Int32, reflect.Int64:
		return fmt.Sprint(v.Int())
	}
	return "?"
}

// ---------------------------------------------------------------------------------------------------
// transport-wide congestion control (C13, C02, C09)

type govcTWCCCase struct {
	symbols []uint16 // one per reported packet
	dbytes  [][]byte // wire bytes of each delta, in order
	fixed   [12]byte // sender, media, base seq (count is derived), ref time, fb count
}

func govcTWCCSymbols(r *rand.Rand) govcTWCCCase {
	var c govcTWCCCase
	n := 0
	switch r.Intn(5) {
	case 0:
		n = 0
	case 1:
		n = 1 + r.Intn(3)
	case 2:
		n = 14 * (1 + r.Intn(3))
	default:
		n = r.Intn(60 * govcScale)
	}
	long := r.Intn(40) == 0 // now and then a feedback packet about thousands of packets (long runs, 13-bit run lengths)
	if long {
		n = 1000 + r.Intn(9000)
		if r.Intn(3) == 0 {
			n = 65535 - r.Intn(9000) // status counts next to the 16-bit limit: the last runs end within a run length of 2^16
		}
	}
	style := r.Intn(4)
	for i := 0; i < n; {
		s := uint16(r.Intn(4))
		if style == 0 {
			s = uint16(r.Intn(2))
		} else if style == 1 {
			s = 0
		}
		run := 1
		if r.Intn(3) == 0 {
			run = 1 + r.Intn(20)
		}
		if long && r.Intn(2) == 0 {
			run = 1 + r.Intn(9000)
		}
		for j := 0; j < run && i < n; j++ {
			c.symbols = append(c.symbols, s)
			i++
		}
	}
	for _, s := range c.symbols {
		switch s {
		case 1:
			c.dbytes = append(c.dbytes, []byte{govcU8(r)})
		case 2:
			v := govcU16(r)
			c.dbytes = append(c.dbytes, []byte{byte(v >> 8), byte(v)})
		}
	}
	r.Read(c.fixed[:])
	return c
}

// govcTWCCChunks: one valid chunking of the status sequence (random mix of run-length and vector chunks; the
// last chunk may overshoot the status count, the overshoot being arbitrary padding symbols).
func govcTWCCChunks(r *rand.Rand, syms []uint16) []uint16 {
	var out []uint16
	for i := 0; i < len(syms); {
		rest := syms[i:]
		same := 1
		for same < len(rest) && rest[same] == rest[0] {
			same++
		}
		oneBit := 0
		for oneBit < len(rest) && oneBit < 14 && rest[oneBit] <= 1 {
			oneBit++
		}
		switch k := r.Intn(3); {
		case k == 0 || (k == 1 && oneBit < 14 && oneBit < len(rest)):
			if k == 0 {
				// run length chunk over 1..same symbols, possibly overshooting at the very end
				if same > 8191 {
					same = 8191 // 13-bit run length
				}
				n := 1 + r.Intn(same)
				w := rest[0]<<13 | uint16(n)
				if n == len(rest) && r.Intn(2) == 0 {
					over := n + r.Intn(100)
					if over > 8191 {
						over = 8191
					}
					w = rest[0]<<13 | uint16(over)
				}
				out = append(out, w)
				i += n
				continue
			}
			fallthrough
		case k == 2:
			w := uint16(1)<<15 | 1<<14
			for j := 0; j < 7; j++ {
				s := uint16(r.Intn(4))
				if j < len(rest) {
					s = rest[j]
				}
				w |= s << uint(2*(6-j))
			}
			out = append(out, w)
			i += 7
		default:
			w := uint16(1) << 15
			for j := 0; j < 14; j++ {
				s := uint16(r.Intn(2))
				if j < len(rest) {
					s = rest[j]
				}
				w |= s << uint(13-j)
			}
			out = append(out, w)
			i += 14
		}
	}
	return out
}

func govcTWCCBytes(r *rand.Rand, c govcTWCCCase, chunks []uint16, extraPad bool) []byte {
	b := make([]byte, 20)
	copy(b[4:12], c.fixed[:8])
	b[12], b[13] = c.fixed[8], c.fixed[9]
	b[14], b[15] = byte(len(c.symbols)>>8), byte(len(c.symbols))
	b[16], b[17], b[18], b[19] = c.fixed[10], c.fixed[11], c.fixed[0], c.fixed[1]
	for _, w := range chunks {
		b = append(b, byte(w>>8), byte(w))
	}
	for _, d := range c.dbytes {
		b = append(b, d...)
	}
	pad := (4 - len(b)%4) % 4
	if extraPad {
		pad += 4
	}
	for j := 0; j < pad; j++ {
		b = append(b, 0)
	}
	b[0], b[1] = 0x80|15, 205
	if pad > 0 && (extraPad || r.Intn(4) != 0) {
		b[0] |= 0x20
		b[len(b)-1] = byte(pad)
	} // else: zero fill to the word boundary without the P bit (a header C09 still calls consistent)
	b[2], b[3] = byte((len(b)/4-1)>>8), byte(len(b)/4-1)
	return b
}

// genTWCCRaw: mostly valid feedback packets (all chunk kinds, zero counts, chunks ending exactly at the packet
// end, overshooting last chunks), some with octets flipped, cut short or with a changed length field.
func genTWCCRaw(r *rand.Rand, i int) []byte {
	c := govcTWCCSymbols(r)
	raw := govcTWCCBytes(r, c, govcTWCCChunks(r, c.symbols), r.Intn(8) == 0)
	switch r.Intn(10) {
	case 0:
		for j := 0; j < 1+r.Intn(3); j++ {
			raw[r.Intn(len(raw))] ^= byte(1 << uint(r.Intn(8)))
		}
	case 1:
		raw = raw[:r.Intn(len(raw)+1)]
	case 2:
		raw[3] = byte(int(raw[3]) + r.Intn(3) - 1)
	case 3:
		raw = append(raw, make([]byte, 4*r.Intn(3))...) // trailing octets beyond the declared length
	}
	return raw
}

// genTWCCTwoChunkings: the same statuses and deltas under two independently chosen chunkings.
func genTWCCTwoChunkings(r *rand.Rand, i int) ([]byte, []byte) {
	c := govcTWCCSymbols(r)
	return govcTWCCBytes(r, c, govcTWCCChunks(r, c.symbols), false), govcTWCCBytes(r, c, govcTWCCChunks(r, c.symbols), false)
}

// genTWCC: a packet value built field by field (not through the decoder) with a header consistent with its content.
func genTWCC(r *rand.Rand, i int) TransportLayerCC {
	c := govcTWCCSymbols(r)
	chunks := govcTWCCChunks(r, c.symbols)
	raw := govcTWCCBytes(r, c, chunks, false)
	p := TransportLayerCC{
		Header:     Header{Padding: raw[0]&0x20 != 0, Count: FormatTCC, Type: TypeTransportSpecificFeedback, Length: uint16(len(raw)/4 - 1)},
		SenderSSRC: be32(raw, 4), MediaSSRC: be32(raw, 8), BaseSequenceNumber: be16(raw, 12), PacketStatusCount: uint16(len(c.symbols)),
		ReferenceTime: be24(raw, 16), FbPktCount: raw[19],
	}
	for _, w := range chunks {
		switch {
		case w>>15 == 0:
			p.PacketChunks = append(p.PacketChunks, &RunLengthChunk{Type: TypeTCCRunLengthChunk, PacketStatusSymbol: w >> 13 & 3, RunLength: w & 0x1FFF})
		case w>>14&1 == 0:
			p.PacketChunks = append(p.PacketChunks, &StatusVectorChunk{Type: TypeTCCStatusVectorChunk, SymbolSize: TypeTCCSymbolSizeOneBit, SymbolList: specTWCCChunkSymbols(w)})
		default:
			p.PacketChunks = append(p.PacketChunks, &StatusVectorChunk{Type: TypeTCCStatusVectorChunk, SymbolSize: TypeTCCSymbolSizeTwoBit, SymbolList: specTWCCChunkSymbols(w)})
		}
	}
	k := 0
	for _, s := range c.symbols {
		switch s {
		case 1:
			p.RecvDeltas = append(p.RecvDeltas, &RecvDelta{Type: TypeTCCPacketReceivedSmallDelta, Delta: 250 * int64(c.dbytes[k][0])})
			k++
		case 2:
			p.RecvDeltas = append(p.RecvDeltas, &RecvDelta{Type: TypeTCCPacketReceivedLargeDelta, Delta: 250 * int64(int16(uint16(c.dbytes[k][0])<<8|uint16(c.dbytes[k][1])))})
			k++
		}
	}
	return p
}

// ---------------------------------------------------------------------------------------------------
// SDES, CCFB and datagram level (C02, C03, C05, C06, C07, C09)

func govcText(r *rand.Rand) string {
	n := 0
	switch r.Intn(6) {
	case 0:
		n = 0
	case 1:
		n = 255
	case 2:
		n = 1 + r.Intn(4)
	default:
		n = r.Intn(40)
	}
	b := make([]byte, n)
	r.Read(b)
	// C strings and padded fields: runs of NUL octets at the end and in the middle are common on the wire
	if n > 0 && r.Intn(4) == 0 {
		for j := n - 1 - r.Intn(3); j >= 0 && j < n; j++ {
			b[j] = 0
		}
	}
	if n > 2 && r.Intn(8) == 0 {
		b[r.Intn(n)] = 0
	}
	return string(b)
}

func govcSDES(r *rand.Rand, wellFormed bool) SourceDescription {
	var p SourceDescription
	nc := r.Intn(4)
	if r.Intn(10) == 0 {
		nc = 31
	}
	for i := 0; i < nc; i++ {
		c := SourceDescriptionChunk{Source: govcU32(r)}
		for j := r.Intn(4); j > 0; j-- {
			c.Items = append(c.Items, SourceDescriptionItem{Type: SDESType(1 + r.Intn(255)), Text: govcText(r)})
		}
		p.Chunks = append(p.Chunks, c)
	}
	if !wellFormed {
		switch r.Intn(3) {
		case 0:
			for len(p.Chunks) < 32 {
				p.Chunks = append(p.Chunks, SourceDescriptionChunk{Source: govcU32(r)})
			}
		case 1:
			p.Chunks = append(p.Chunks, SourceDescriptionChunk{Items: []SourceDescriptionItem{{Type: SDESEnd, Text: "x"}}})
		default:
			p.Chunks = append(p.Chunks, SourceDescriptionChunk{Items: []SourceDescriptionItem{{Type: SDESCNAME, Text: string(make([]byte, 256+r.Intn(3)))}}})
		}
	}
	return p
}

func genSDES(r *rand.Rand, i int) SourceDescription { return govcSDES(r, i%8 != 7) }

func govcMutate(r *rand.Rand, raw []byte) []byte {
	if len(raw) == 0 {
		return raw
	}
	switch r.Intn(6) {
	case 0:
		for j := 0; j < 1+r.Intn(3); j++ {
			raw[r.Intn(len(raw))] ^= byte(1 << uint(r.Intn(8)))
		}
	case 1:
		raw = raw[:r.Intn(len(raw)+1)]
	case 2:
		if len(raw) >= 4 {
			raw[3] = byte(int(raw[3]) + r.Intn(3) - 1)
		}
	}
	return raw
}

func genSDESRaw(r *rand.Rand, i int) []byte {
	raw, err := govcSDES(r, true).Marshal()
	if err != nil {
		return nil
	}
	return govcMutate(r, raw)
}

func govcCCFB(r *rand.Rand, allowSingletons bool) CCFeedbackReport {
	p := CCFeedbackReport{SenderSSRC: govcU32(r), ReportTimestamp: govcU32(r)}
	for nb := r.Intn(4); nb > 0; nb-- {
		blk := CCFeedbackReportBlock{MediaSSRC: govcU32(r), BeginSequence: govcU16(r)}
		n := govcLen(r)
		if n == 1 && !allowSingletons {
			n = 2
		}
		// the reported range begin..begin+n-1 must stay within 16 bits; the boundary (last packet 65535) is favoured
		if int(blk.BeginSequence)+n > 65536 || (n > 0 && r.Intn(6) == 0) {
			blk.BeginSequence = uint16(65536 - n)
		}
		for j := 0; j < n; j++ {
			m := CCFeedbackMetricBlock{}
			if r.Intn(3) != 0 {
				m = CCFeedbackMetricBlock{Received: true, ECN: ECN(r.Intn(4)), ArrivalTimeOffset: govcU16(r) & 0x1FFF}
			}
			blk.MetricBlocks = append(blk.MetricBlocks, m)
		}
		p.ReportBlocks = append(p.ReportBlocks, blk)
	}
	return p
}

func genCCFB(r *rand.Rand, i int) CCFeedbackReport { return govcCCFB(r, true) }

func genCCFBRaw(r *rand.Rand, i int) []byte {
	raw, err := govcCCFB(r, true).Marshal()
	if err != nil {
		return nil
	}
	return govcMutate(r, raw)
}

// govcCount: mostly a handful, sometimes anything up to the 5-bit count field's maximum.
func govcCount(r *rand.Rand, min int) int {
	if r.Intn(6) == 0 {
		return min + r.Intn(32-min)
	}
	return min + r.Intn(4)
}

func govcRR(r *rand.Rand) ReceptionReport {
	return ReceptionReport{SSRC: govcU32(r), FractionLost: govcU8(r), TotalLost: govcU32(r) & 0xFFFFFF, LastSequenceNumber: govcU32(r),
		Jitter: govcU32(r), LastSenderReport: govcU32(r), Delay: govcU32(r)}
}

// govcAlignedXR: an extended report whose blocks occupy whole 32-bit words and whose type-specific fields are
// representable (the documented scope of the round trip).
func govcAlignedXR(r *rand.Rand) *ExtendedReport {
	x := govcXR(r, 100)
	for _, b := range x.Reports {
		switch v := b.(type) {
		case *LossRLEReportBlock:
			v.T &= 15
			if len(v.Chunks)%2 != 0 {
				v.Chunks = append(v.Chunks, 0)
			}
		case *DuplicateRLEReportBlock:
			v.T &= 15
			if len(v.Chunks)%2 != 0 {
				v.Chunks = append(v.Chunks, 0)
			}
		case *PacketReceiptTimesReportBlock:
			v.T &= 15
		case *UnknownReportBlock:
			v.Bytes = v.Bytes[:len(v.Bytes)/4*4]
		}
	}
	return &x
}

// govcPacket: a well-formed packet of kind k (0..14).
func govcPacket(r *rand.Rand, k int) Packet {
	switch k {
	case 0:
		p := &SenderReport{SSRC: govcU32(r), NTPTime: uint64(govcU32(r))<<32 | uint64(govcU32(r)), RTPTime: govcU32(r), PacketCount: govcU32(r), OctetCount: govcU32(r)}
		for n := govcCount(r, 0); n > 0; n-- {
			p.Reports = append(p.Reports, govcRR(r))
		}
		if r.Intn(3) == 0 {
			p.ProfileExtensions = make([]byte, r.Intn(9))
			r.Read(p.ProfileExtensions)
		}
		return p
	case 1:
		p := &ReceiverReport{SSRC: govcU32(r)}
		for n := govcCount(r, 0); n > 0; n-- {
			p.Reports = append(p.Reports, govcRR(r))
		}
		if r.Intn(3) == 0 {
			p.ProfileExtensions = make([]byte, r.Intn(9))
			r.Read(p.ProfileExtensions)
		}
		return p
	case 2:
		p := govcSDES(r, true)
		return &p
	case 3:
		p := &Goodbye{Reason: govcText(r)}
		for n := govcCount(r, 0); n > 0; n-- {
			p.Sources = append(p.Sources, govcU32(r))
		}
		return p
	case 4:
		d := make([]byte, r.Intn(12))
		r.Read(d)
		return &ApplicationDefined{SubType: uint8(r.Intn(32)), SSRC: govcU32(r), Name: string([]byte{byte(32 + r.Intn(90)), byte(32 + r.Intn(90)), byte(32 + r.Intn(90)), byte(32 + r.Intn(90))}), Data: d}
	case 5:
		p := &TransportLayerNack{SenderSSRC: govcU32(r), MediaSSRC: govcU32(r)}
		for n := govcCount(r, 1); n > 0; n-- {
			p.Nacks = append(p.Nacks, NackPair{PacketID: govcU16(r), LostPackets: PacketBitmap(govcU16(r))})
		}
		return p
	case 6:
		return &RapidResynchronizationRequest{SenderSSRC: govcU32(r), MediaSSRC: govcU32(r)}
	case 7:
		return &PictureLossIndication{SenderSSRC: govcU32(r), MediaSSRC: govcU32(r)}
	case 8:
		p := &SliceLossIndication{SenderSSRC: govcU32(r), MediaSSRC: govcU32(r)}
		for n := govcCount(r, 1); n > 0; n-- {
			p.SLI = append(p.SLI, SLIEntry{First: govcU16(r) & 0x1FFF, Number: govcU16(r) & 0x1FFF, Picture: govcU8(r) & 0x3F})
		}
		return p
	case 9:
		p := &FullIntraRequest{SenderSSRC: govcU32(r), MediaSSRC: govcU32(r)}
		for n := govcCount(r, 1); n > 0; n-- {
			p.FIR = append(p.FIR, FIREntry{SSRC: govcU32(r), SequenceNumber: govcU8(r)})
		}
		return p
	case 10:
		// bitrates below 1 bit/s have mantissa 0 on the wire: the recorded REMB finding (C14, C04), kept out of the list lemmas
		p := &ReceiverEstimatedMaximumBitrate{SenderSSRC: govcU32(r), Bitrate: 1 + float32(r.Int63n(1<<40))*float32(r.Intn(5))}
		for n := govcCount(r, 0); n > 0; n-- {
			p.SSRCs = append(p.SSRCs, govcU32(r))
		}
		return p
	case 11:
		p := genTWCC(r, 0)
		return &p
	case 12:
		p := govcCCFB(r, false)
		return &p
	case 13:
		return govcAlignedXR(r)
	default:
		n := 4 * r.Intn(5)
		b := make([]byte, 4+n)
		r.Read(b)
		pts := []byte{192, 193, 195, 199, 208, 210, 255, 0}
		b[0], b[1], b[2], b[3] = 0x80|b[0]&0x1F, pts[r.Intn(len(pts))], 0, byte(n/4)
		rp := RawPacket(b)
		return &rp
	}
}

// genPacketList: lists of 1..5 well-formed packets over all 15 packet kinds, in any order.
func genPacketList(r *rand.Rand, i int) []Packet {
	if i < 15 {
		return []Packet{govcPacket(r, i)}
	}
	var ps []Packet
	for n := 1 + r.Intn(5*govcScale); n > 0; n-- {
		ps = append(ps, govcPacket(r, r.Intn(15)))
	}
	return ps
}

// genDatagram: encodings of such lists, sometimes mutated, cut or spliced.
func genDatagram(r *rand.Rand, i int) []byte {
	raw, err := Marshal(genPacketList(r, i))
	if err != nil {
		return nil
	}
	if r.Intn(3) == 0 {
		raw = govcMutate(r, raw)
	}
	if r.Intn(10) == 0 {
		other, err := Marshal(genPacketList(r, 100))
		if err == nil {
			raw = append(raw[:len(raw)/4/2*4], other...)
		}
	}
	return raw
}

// genStringifyArg (C17): any packet kind, including packets with empty and nil lists and extended reports with
// every block kind; stringify must terminate without panicking.
func genStringifyArg(r *rand.Rand, i int) Packet {
	if i%4 == 0 {
		x := govcXR(r, i/4)
		return &x
	}
	if i%16 == 1 {
		return &ExtendedReport{}
	}
	return govcPacket(r, i%15)
}

func genXRPtr(r *rand.Rand, i int) *ExtendedReport {
	x := govcXR(r, i)
	return &x
}

// genCompound (C11): sequences of 0..6 packets over the kinds {SR, RR, SDES with CNAME (in the first or a later
// chunk/item), SDES without CNAME, SDES with no chunks, BYE, feedback, APP, XR, Raw}, biased towards sequences
// near the accept/reject boundary of the compound grammar.
func genCompound(r *rand.Rand, i int) CompoundPacket {
	var c CompoundPacket
	mk := func(k int) Packet {
		switch k {
		case 0:
			return govcPacket(r, 0)
		case 1:
			return govcPacket(r, 1)
		case 2, 3: // SDES with a CNAME somewhere
			s := govcSDES(r, true)
			for ci := range s.Chunks {
				for ii := range s.Chunks[ci].Items {
					if s.Chunks[ci].Items[ii].Type == SDESCNAME {
						s.Chunks[ci].Items[ii].Type = SDESName
					}
				}
			}
			if len(s.Chunks) == 0 {
				s.Chunks = append(s.Chunks, SourceDescriptionChunk{Source: govcU32(r)})
			}
			ci := r.Intn(len(s.Chunks))
			it := SourceDescriptionItem{Type: SDESCNAME, Text: govcText(r)}
			items := s.Chunks[ci].Items
			at := r.Intn(len(items) + 1)
			items = append(items[:at:at], append([]SourceDescriptionItem{it}, items[at:]...)...)
			s.Chunks[ci].Items = items
			if k == 3 && r.Intn(2) == 0 { // a second CNAME later on
				s.Chunks = append(s.Chunks, SourceDescriptionChunk{Source: govcU32(r), Items: []SourceDescriptionItem{{Type: SDESCNAME, Text: govcText(r)}}})
			}
			if len(s.Chunks) > 31 {
				s.Chunks = s.Chunks[:31]
			}
			return &s
		case 4: // SDES without CNAME
			s := govcSDES(r, true)
			for ci := range s.Chunks {
				for ii := range s.Chunks[ci].Items {
					if s.Chunks[ci].Items[ii].Type == SDESCNAME {
						s.Chunks[ci].Items[ii].Type = SDESEmail
					}
				}
			}
			return &s
		case 5:
			return &SourceDescription{}
		case 6:
			return govcPacket(r, 3)
		case 7:
			return govcPacket(r, 5+r.Intn(6))
		case 8:
			return govcPacket(r, 4)
		case 9:
			return govcPacket(r, 13)
		default:
			return govcPacket(r, 14)
		}
	}
	n := r.Intn(7)
	for j := 0; j < n; j++ {
		k := r.Intn(11)
		if j == 0 && r.Intn(4) != 0 {
			k = r.Intn(2)
		} else if j > 0 && r.Intn(3) == 0 {
			k = 1 + r.Intn(4)
		}
		c = append(c, mk(k))
	}
	return c
}

// ---------------------------------------------------------------------------------------------------
// NACK helpers (C12)

// genNackRange: any pair (IDs near the 65535->0 wrap favoured, sparse and dense bitmaps) and every early-stop
// position 0..17 of the callback (17: never stops).
func genNackRange(r *rand.Rand, i int) (NackPair, int) {
	p := NackPair{PacketID: govcU16(r), LostPackets: PacketBitmap(govcU16(r))}
	switch r.Intn(4) {
	case 0:
		p.PacketID = uint16(65520 + r.Intn(16))
	case 1:
		p.LostPackets = PacketBitmap(uint16(1)<<uint(r.Intn(16)) | uint16(1)<<uint(r.Intn(16)))
	}
	return p, i % 18
}

// genNackSeqs: lists of 0..40 sequence numbers: ascending runs with gaps around 16/17, duplicates, unsorted
// input, runs across the wrap.
func genNackSeqs(r *rand.Rand, i int) []uint16 {
	n := r.Intn(41 * govcScale)
	var out []uint16
	cur := govcU16(r)
	if r.Intn(3) == 0 {
		cur = uint16(65500 + r.Intn(36))
	}
	for j := 0; j < n; j++ {
		switch r.Intn(8) {
		case 0:
			cur += uint16(15 + r.Intn(4)) // gaps of 15..18 around the bitmap width
		case 1:
			// duplicate
		case 2:
			cur += uint16(r.Intn(200))
		case 3:
			if r.Intn(4) == 0 {
				cur -= uint16(r.Intn(20)) // unsorted input
			} else {
				cur++
			}
		default:
			cur += uint16(1 + r.Intn(3))
		}
		out = append(out, cur)
	}
	return out
}
