package main

import (
	"fmt"
	"go/types"
	"sort"
	"strings"
)

// ---------- regions ----------

// A Region is the backing store of a slice, string or array. Its contents are addressed by component
// paths (one SMT array per scalar leaf of the element type), see readElem.
type Region struct {
	id       int
	name     string
	Elem     types.Type
	fresh    bool // allocated in the activation under verification
	zero     bool // zero-initialised (make/new); otherwise arbitrary initial contents
	concrete bool // contents kept as a Go list of values with constant indices
	// derived regions: the contents of a nested slice/string found at (parent, idx, path)
	lineage int // identity for ghost prefix functions: shared by the regions an append chain produces
	parent *Region
	pidx   *Term
	ppath  string
	input  bool // reachable from the inputs (not writable unless in modifies)
}

type RegionState struct {
	ver   int            // version: bumped on every write (identity of the contents for ghost recursive functions)
	gen   int            // generation: bumped by havoc; names the default base arrays
	comp  map[string]Mem // explicitly written components
	elems []Value        // concrete mode
}

// Mem is an engine-side memory log for one component; reads are resolved to ite-terms over base arrays.
type Mem interface {
	read(idx *Term) *Term
	sort() *Sort // element sort
}
type baseMem struct{ arr *Term }
type zeroMem struct{ s *Sort }
type storeMem struct {
	prev     Mem
	idx, val *Term
}
type copyMem struct {
	prev      Mem
	dstOff, n *Term
	src       Mem
	srcOff    *Term
}

func zeroOfSort(s *Sort) *Term {
	switch s.K {
	case KBool:
		return False
	case KInt:
		return IntK(0)
	case KBV:
		return BVInt(0, s.W)
	case KFP:
		return FPConstBits(zeroBig, s.W)
	case KArr:
		return ConstArr(s, zeroOfSort(s.Elem))
	}
	panic("zeroOfSort " + s.S)
}

func (m baseMem) read(i *Term) *Term { return Select(m.arr, i) }
func (m baseMem) sort() *Sort        { return m.arr.Sort.Elem }
func (m zeroMem) read(i *Term) *Term { return zeroOfSort(m.s) }
func (m zeroMem) sort() *Sort        { return m.s }
func (m storeMem) read(i *Term) *Term {
	return Ite(Eq(i, m.idx), m.val, m.prev.read(i))
}
func (m storeMem) sort() *Sort { return m.prev.sort() }
func (m copyMem) read(i *Term) *Term {
	in := And(IntLe(m.dstOff, i), IntLt(i, IntAdd(m.dstOff, m.n)))
	if in.IsFalse() {
		return m.prev.read(i)
	}
	return Ite(in, m.src.read(IntAdd(m.srcOff, IntSub(i, m.dstOff))), m.prev.read(i))
}
func (m copyMem) sort() *Sort { return m.prev.sort() }

// memArray renders a memory log as an SMT array term when possible.
func memArray(m Mem) (*Term, bool) {
	switch x := m.(type) {
	case baseMem:
		return x.arr, true
	case zeroMem:
		return ConstArr(ArrSort(SortInt, x.s), zeroOfSort(x.s)), true
	case storeMem:
		p, ok := memArray(x.prev)
		if !ok {
			return nil, false
		}
		return Store(p, x.idx, x.val), true
	}
	return nil, false
}

// ---------- state ----------

type QHyp struct {
	text string
	inst  func(ks []*Term) *Term // instantiate the hypothesis at the given terms (one per binder)
	n     int                    // number of binders
	sorts []*Sort                // sort of each binder
}

type CallRec struct {
	fn   *SymFunc
	args []Value
	ret  Value
}

type recApp struct {
	fn    string
	other string // the non-bound arguments (as a key)
	bound *Term
	app   *Term
}

type State struct {
	// symbolic trace of calls through an unknown function value (callback): argument and result per call
	tlen       *Term
	targ, tret Mem
	recApps        []recApp
	defs           []*Term // definitional facts about ghost-function applications (valid in every state)
	caseTerm       *Term // proof-by-cases hint (see markCases)
	caseLo, caseHi int
	unfolded map[int]bool // applications of recursive ghost functions already unfolded on this path
	pc    []*Term
	objs  map[*Object]Value
	rgn   map[*Region]*RegionState
	inst  []*Term
	qh    []*QHyp
	alloc *Term // ghost: payload bytes allocated so far (Int)
	trace []CallRec
	nfeas int
}

func newState() *State {
	return &State{objs: map[*Object]Value{}, rgn: map[*Region]*RegionState{}, alloc: IntK(0)}
}

func (s *State) clone() *State {
	n := &State{pc: append([]*Term(nil), s.pc...), objs: make(map[*Object]Value, len(s.objs)), rgn: make(map[*Region]*RegionState, len(s.rgn)),
		inst: append([]*Term(nil), s.inst...), qh: append([]*QHyp(nil), s.qh...), alloc: s.alloc, trace: append([]CallRec(nil), s.trace...),
		caseTerm: s.caseTerm, caseLo: s.caseLo, caseHi: s.caseHi, recApps: append([]recApp(nil), s.recApps...), defs: append([]*Term(nil), s.defs...),
		tlen: s.tlen, targ: s.targ, tret: s.tret}
	for k, v := range s.objs {
		n.objs[k] = v
	}
	for k, v := range s.rgn {
		n.rgn[k] = v
	}
	if len(s.unfolded) > 0 {
		n.unfolded = make(map[int]bool, len(s.unfolded))
		for k := range s.unfolded {
			n.unfolded[k] = true
		}
	}
	return n
}

func (s *State) assume(t *Term) {
	if !t.IsTrue() {
		s.pc = append(s.pc, t)
	}
}

func (s *State) addInst(t *Term) {
	for _, x := range s.inst {
		if x == t {
			return
		}
	}
	s.inst = append(s.inst, t)
}

// hypsFor: like hyps, with the index terms of the goal's array reads as additional instantiation candidates
// (the index set of the array property fragment): a hypothesis `forall k :: a[k] == 0` is then available at
// every position the goal reads.
func (s *State) hypsFor(goal *Term) []*Term {
	if len(s.qh) == 0 {
		return s.hyps()
	}
	extra := []*Term{}
	seen := map[int]bool{}
	for _, t := range s.inst {
		seen[t.id] = true
	}
	subTerms([]*Term{goal}, func(t *Term) {
		if t.Op == "select" && t.Args[1].IsInt() && !seen[t.Args[1].id] && len(extra) < 64 {
			seen[t.Args[1].id] = true
			extra = append(extra, t.Args[1])
		}
	})
	if len(extra) == 0 {
		return s.hyps()
	}
	saved := s.inst
	s.inst = append(append([]*Term(nil), s.inst...), extra...)
	out := s.hyps1(len(saved))
	s.inst = saved
	return out
}

func (s *State) hyps() []*Term { return s.hyps1(len(s.inst)) }

// hyps1: path condition plus all instantiations of quantified hypotheses at the known instantiation terms;
// two-binder hypotheses only range over the first n2 terms.
func (s *State) hyps1(n2 int) []*Term {
	out := append([]*Term(nil), s.pc...)
	for _, q := range s.qh {
		switch q.n {
		case 1:
			for _, t := range s.inst {
				if len(q.sorts) > 0 && t.Sort != q.sorts[0] {
					continue
				}
				out = append(out, q.inst([]*Term{t}))
			}
		case 2:
			for _, t1 := range s.inst[:n2] {
				for _, t2 := range s.inst[:n2] {
					if len(q.sorts) > 1 && (t1.Sort != q.sorts[0] || t2.Sort != q.sorts[1]) {
						continue
					}
					out = append(out, q.inst([]*Term{t1, t2}))
				}
			}
		}
	}
	return out
}

// ---------- allocation ----------

func (u *Unit) newObject(st *State, v Value, name string) *Object {
	u.nextID++
	o := &Object{id: u.nextID, fresh: true, name: name}
	st.objs[o] = v
	return o
}

func (u *Unit) newRegion(elem types.Type, name string) *Region {
	u.nextID++
	return &Region{id: u.nextID, name: fmt.Sprintf("%s#%d", name, u.nextID), Elem: elem}
}

// flatElem: element types whose values are scalars / structs of scalars (no references).
func flatElem(t types.Type) bool {
	if scalarSort(t) != nil {
		return true
	}
	if st, ok := t.Underlying().(*types.Struct); ok {
		for i := 0; i < st.NumFields(); i++ {
			if !flatElem(st.Field(i).Type()) {
				return false
			}
		}
		return true
	}
	return false
}

func (u *Unit) rstate(st *State, r *Region) *RegionState {
	if rs, ok := st.rgn[r]; ok {
		return rs
	}
	return &RegionState{}
}

// baseArray: the default (unwritten) contents of component key of region r in generation gen.
func (u *Unit) baseMem(st *State, r *Region, gen int, key string, s *Sort) Mem {
	if src, ok := u.aliasBase[r]; ok && gen == 0 {
		return u.compMem(st, src, key, s)
	}
	if r.zero && gen == 0 {
		return zeroMem{s}
	}
	if r.parent != nil && gen == 0 {
		// contents of a nested slice: select the parent's two-level component at the parent index
		pm := u.compMem(st, r.parent, r.ppath+"[]"+key, ArrSort(SortInt, s))
		return baseMem{pm.read(r.pidx)}
	}
	return baseMem{Var(fmt.Sprintf("%s@%d%s", r.name, gen, key), ArrSort(SortInt, s))}
}

func (u *Unit) compMem(st *State, r *Region, key string, s *Sort) Mem {
	rs := u.rstate(st, r)
	if m, ok := rs.comp[key]; ok {
		return m
	}
	return u.baseMem(st, r, rs.gen, key, s)
}

func (u *Unit) setComp(st *State, r *Region, key string, m Mem) {
	rs := u.rstate(st, r)
	nc := make(map[string]Mem, len(rs.comp)+1)
	for k, v := range rs.comp {
		nc[k] = v
	}
	nc[key] = m
	ver := rs.ver
	if !u.appending {
		u.nextID++
		ver = u.nextID
	}
	st.rgn[r] = &RegionState{ver: ver, gen: rs.gen, comp: nc, elems: rs.elems}
}

func (u *Unit) havocRegion(st *State, r *Region) {
	if r.concrete {
		rs := u.rstate(st, r)
		ne := make([]Value, len(rs.elems))
		for i := range ne {
			ne[i] = u.havoc(st, r.Elem, fmt.Sprintf("%s[%d]", r.name, i))
		}
		st.rgn[r] = &RegionState{elems: ne}
		return
	}
	u.nextID++
	st.rgn[r] = &RegionState{ver: u.nextID, gen: u.nextID}
}

// havocRange: elements [off, off+n) of a scalar region become arbitrary, the others keep their values.
func (u *Unit) havocRange(st *State, r *Region, off, n *Term) {
	s := scalarSort(r.Elem)
	if s == nil || r.concrete {
		u.havocRegion(st, r)
		return
	}
	u.nextID++
	fresh := u.baseMem(st, r, u.nextID, "", s)
	u.setComp(st, r, "", copyMem{u.compMem(st, r, "", s), off, n, fresh, off})
}

func (u *Unit) derived(r *Region, idx *Term, path string, elem types.Type) *Region {
	key := fmt.Sprintf("%d/%d/%s", r.id, idx.id, path)
	if d, ok := u.derivedTab[key]; ok {
		return d
	}
	d := u.newRegion(elem, r.name+path)
	d.parent, d.pidx, d.ppath, d.input = r, idx, path, r.input
	u.derivedTab[key] = d
	return d
}

// ---------- element access ----------

// readElem reads the value of type t found at sub-path path of element idx of region r.
func (u *Unit) readElem(st *State, r *Region, idx *Term, path string, t types.Type) Value {
	if s := scalarSort(t); s != nil {
		tm := u.compMem(st, r, path, s).read(idx)
		switch {
		case s.K == KBool:
			return BoolV{tm}
		case s.K == KFP:
			return FloatV{tm, s.W}
		}
		_, sg, _ := intSort(t)
		return IntV{tm, sg}
	}
	switch ut := t.Underlying().(type) {
	case *types.Struct:
		sv := StructV{F: make([]Value, ut.NumFields())}
		for i := range sv.F {
			sv.F[i] = u.readElem(st, r, idx, fmt.Sprintf("%s.%d", path, i), ut.Field(i).Type())
		}
		return sv
	case *types.Slice:
		ln := u.compMem(st, r, path+"#len", SortInt).read(idx)
		st.assume(And(IntLe(IntK(0), ln), IntLe(ln, IntK(1<<40))))
		return SliceV{R: u.derived(r, idx, path, ut.Elem()), Off: IntK(0), Len: ln, Cap: ln}
	case *types.Basic:
		if isStringType(t) {
			ln := u.compMem(st, r, path+"#len", SortInt).read(idx)
			st.assume(And(IntLe(IntK(0), ln), IntLe(ln, IntK(1<<40))))
			return StringV{R: u.derived(r, idx, path, types.Typ[types.Uint8]), Off: IntK(0), Len: ln}
		}
	case *types.Pointer:
		if strings.HasSuffix(path, "@"+relType(t)) {
			// the dynamic value of an interface: well-formed packets are non-nil pointers (assumption A4)
			return ElemPtr{R: r, Idx: idx, Path: path + "*", Typ: ut.Elem()}
		}
		return ElemPtr{R: r, Idx: idx, Path: path + "*", Typ: ut.Elem(), Nil: u.compMem(st, r, path+"#nil", SortBool).read(idx)}
	case *types.Interface:
		if isErrorType(t) {
			return ErrV{Nil: u.compMem(st, r, path+"#nil", SortBool).read(idx), ID: u.compMem(st, r, path+"#id", SortInt).read(idx)}
		}
		return SymIface{Tag: u.compMem(st, r, path+"#tag", SortInt).read(idx), R: r, Idx: idx, Path: path, Typ: t}
	}
	u.unsupported("readElem of %s", t)
	return nil
}

// writeElem stores v (of type t) at sub-path path of element idx of region r.
func (u *Unit) writeElem(st *State, r *Region, idx *Term, path string, t types.Type, v Value) bool {
	if s := scalarSort(t); s != nil {
		var tm *Term
		switch x := v.(type) {
		case IntV:
			tm = x.T
		case BoolV:
			tm = x.T
		case FloatV:
			tm = x.T
		default:
			u.unsupported("writeElem scalar %T", v)
			return false
		}
		u.setComp(st, r, path, storeMem{u.compMem(st, r, path, s), idx, tm})
		return true
	}
	switch ut := t.Underlying().(type) {
	case *types.Struct:
		sv, ok := v.(StructV)
		if !ok {
			u.unsupported("writeElem struct %T", v)
			return false
		}
		for i := range sv.F {
			if !u.writeElem(st, r, idx, fmt.Sprintf("%s.%d", path, i), ut.Field(i).Type(), sv.F[i]) {
				return false
			}
		}
		return true
	case *types.Slice:
		sl := v.(SliceV)
		return u.writeNested(st, r, idx, path, ut.Elem(), sl.R, sl.Off, sl.Len)
	case *types.Basic:
		if isStringType(t) {
			sv := v.(StringV)
			return u.writeNested(st, r, idx, path, types.Typ[types.Uint8], sv.R, sv.Off, sv.Len)
		}
	case *types.Pointer:
		switch p := v.(type) {
		case PtrV:
			if p.Obj == nil {
				u.setComp(st, r, path+"#nil", storeMem{u.compMem(st, r, path+"#nil", SortBool), idx, True})
				return true
			}
			if !p.Obj.fresh {
				u.unsupported("storing a pointer to a caller-owned object into a region")
				return false
			}
			u.setComp(st, r, path+"#nil", storeMem{u.compMem(st, r, path+"#nil", SortBool), idx, False})
			// the pointee is captured by value: sound as long as it is not mutated through another alias
			// afterwards (checked: the object is marked captured and later stores to it are unsupported)
			pv := getPath(st.objs[p.Obj], p.Path)
			u.captured[p.Obj] = true
			return u.writeElem(st, r, idx, path+"*", ut.Elem(), pv)
		}
	case *types.Interface:
		if isErrorType(t) {
			ev := v.(ErrV)
			u.setComp(st, r, path+"#nil", storeMem{u.compMem(st, r, path+"#nil", SortBool), idx, ev.Nil})
			return true
		}
		switch iv := v.(type) {
		case IfaceV:
			if iv.Typ == nil {
				u.setComp(st, r, path+"#tag", storeMem{u.compMem(st, r, path+"#tag", SortInt), idx, IntK(0)})
				return true
			}
			u.setComp(st, r, path+"#tag", storeMem{u.compMem(st, r, path+"#tag", SortInt), idx, IntK(int64(u.eng.typeID(iv.Typ)))})
			return u.writeElem(st, r, idx, path+"@"+relType(iv.Typ), iv.Typ, iv.V)
		case SymIface:
			// an arbitrary interface value: only its dynamic type is carried over (the pointee stays arbitrary)
			u.setComp(st, r, path+"#tag", storeMem{u.compMem(st, r, path+"#tag", SortInt), idx, iv.Tag})
			return true
		}
	}
	u.unsupported("writeElem of %s (%T)", t, v)
	return false
}

func (u *Unit) writeNested(st *State, r *Region, idx *Term, path string, elem types.Type, src *Region, off, ln *Term) bool {
	u.setComp(st, r, path+"#len", storeMem{u.compMem(st, r, path+"#len", SortInt), idx, ln})
	if src == nil {
		return true
	}
	if off.C == nil || off.C.Sign() != 0 {
		if ln.C != nil && ln.C.Sign() == 0 {
			return true
		}
		u.unsupported("store of a slice with non-zero offset into a region element")
		return false
	}
	if src.concrete {
		u.unsupported("store of a concrete-list slice into a region element")
		return false
	}
	for _, lf := range leafKeys(elem, "") {
		m := u.compMem(st, src, lf.key, lf.sort)
		arr, ok := memArray(m)
		if !ok {
			u.unsupported("store of a slice whose contents are not an array term")
			return false
		}
		k2 := path + "[]" + lf.key
		as := ArrSort(SortInt, lf.sort)
		u.setComp(st, r, k2, storeMem{u.compMem(st, r, k2, as), idx, arr})
	}
	return true
}

type leafKey struct {
	key  string
	sort *Sort
}

// leafKeys enumerates the scalar component keys of a flat-ish type (nested slices contribute their #len only one level).
func leafKeys(t types.Type, path string) []leafKey {
	if s := scalarSort(t); s != nil {
		return []leafKey{{path, s}}
	}
	switch ut := t.Underlying().(type) {
	case *types.Struct:
		var out []leafKey
		for i := 0; i < ut.NumFields(); i++ {
			out = append(out, leafKeys(ut.Field(i).Type(), fmt.Sprintf("%s.%d", path, i))...)
		}
		return out
	case *types.Slice:
		out := []leafKey{{path + "#len", SortInt}}
		for _, lf := range leafKeys(ut.Elem(), "") {
			out = append(out, leafKey{path + "[]" + lf.key, ArrSort(SortInt, lf.sort)})
		}
		return out
	case *types.Basic:
		if isStringType(t) {
			return []leafKey{{path + "#len", SortInt}, {path + "[]", ArrSort(SortInt, BVSort(8))}}
		}
	case *types.Pointer:
		out := []leafKey{{path + "#nil", SortBool}}
		return append(out, leafKeys(ut.Elem(), path+"*")...)
	case *types.Interface:
		if isErrorType(t) {
			return []leafKey{{path + "#nil", SortBool}, {path + "#id", SortInt}}
		}
		return []leafKey{{path + "#tag", SortInt}}
	}
	return nil
}

// ---------- zero and arbitrary values ----------

func (u *Unit) zero(st *State, t types.Type) Value {
	if s, sg, ok := intSort(t); ok {
		return IntV{zeroOfSort(s), sg}
	}
	if isBoolType(t) {
		return BoolV{False}
	}
	if fb := floatBits(t); fb > 0 {
		return FloatV{zeroOfSort(FPSort(fb)), fb}
	}
	switch ut := t.Underlying().(type) {
	case *types.Basic:
		if isStringType(t) {
			return StringV{Off: IntK(0), Len: IntK(0)}
		}
	case *types.Struct:
		sv := StructV{F: make([]Value, ut.NumFields())}
		for i := range sv.F {
			sv.F[i] = u.zero(st, ut.Field(i).Type())
		}
		return sv
	case *types.Pointer:
		return PtrV{}
	case *types.Slice:
		return SliceV{Off: IntK(0), Len: IntK(0), Cap: IntK(0)}
	case *types.Interface:
		if isErrorType(t) {
			return ErrV{Nil: True, ID: IntK(0)}
		}
		return IfaceV{}
	case *types.Array:
		return u.newArray(st, ut, true)
	case *types.Signature:
		return FuncV{}
	case *types.Map:
		return MapV{}
	}
	u.unsupported("zero of %s", t)
	return nil
}

type ArrayV struct {
	R *Region
	N int64
}

func (u *Unit) newArray(st *State, at *types.Array, zero bool) ArrayV {
	r := u.newRegion(at.Elem(), "arr")
	r.fresh = true
	if flatElem(at.Elem()) {
		r.zero = zero
	} else {
		r.concrete = true
		el := make([]Value, at.Len())
		for i := range el {
			el[i] = u.zero(st, at.Elem())
		}
		st.rgn[r] = &RegionState{elems: el}
	}
	return ArrayV{r, at.Len()}
}

// havoc returns an arbitrary well-formed value of type t (the "is_valid" invariant is assumed).
func (u *Unit) havoc(st *State, t types.Type, hint string) Value {
	if s, sg, ok := intSort(t); ok {
		v := Fresh(hint, s)
		if s.K == KInt {
			st.assume(And(IntLe(IntK(-(1<<62)), v), IntLe(v, IntK(1<<62))))
		}
		return IntV{v, sg}
	}
	if isBoolType(t) {
		return BoolV{Fresh(hint, SortBool)}
	}
	if fb := floatBits(t); fb > 0 {
		return FloatV{Fresh(hint, FPSort(fb)), fb}
	}
	switch ut := t.Underlying().(type) {
	case *types.Basic:
		if isStringType(t) {
			r := u.newRegion(types.Typ[types.Uint8], hint)
			r.input = true
			ln := Fresh(hint+".len", SortInt)
			st.assume(And(IntLe(IntK(0), ln), IntLe(ln, IntK(1<<40))))
			return StringV{R: r, Off: IntK(0), Len: ln}
		}
	case *types.Struct:
		sv := StructV{F: make([]Value, ut.NumFields())}
		for i := range sv.F {
			sv.F[i] = u.havoc(st, ut.Field(i).Type(), hint+"."+ut.Field(i).Name())
		}
		return sv
	case *types.Slice:
		r := u.newRegion(ut.Elem(), hint)
		r.input = true
		ln, cp := Fresh(hint+".len", SortInt), Fresh(hint+".cap", SortInt)
		st.assume(And(IntLe(IntK(0), ln), IntLe(ln, cp), IntLe(cp, IntK(1<<40))))
		return SliceV{r, IntK(0), ln, cp}
	case *types.Interface:
		if isErrorType(t) {
			return ErrV{Nil: Fresh(hint+".isnil", SortBool), ID: Fresh(hint+".errid", SortInt)}
		}
		// an arbitrary interface value: a one-element symbolic region holds it
		r := u.newRegion(t, hint)
		r.input = true
		return u.readElem(st, r, IntK(0), "", t)
	case *types.Pointer:
		r := u.newRegion(t, hint)
		r.input = true
		return u.readElem(st, r, IntK(0), "", t)
	case *types.Signature:
		return FuncV{Sym: &SymFunc{Name: hint, Sig: ut}}
	case *types.Array:
		a := u.newArray(st, ut, false)
		a.R.fresh = false
		a.R.input = true
		return a
	}
	u.unsupported("havoc of %s", t)
	return u.zero(st, t)
}

// ---------- paths in struct values ----------

func getPath(v Value, path []int) Value {
	for _, i := range path {
		v = v.(StructV).F[i]
	}
	return v
}
func setPath(v Value, path []int, nv Value) Value {
	if len(path) == 0 {
		return nv
	}
	sv := v.(StructV)
	nf := append([]Value(nil), sv.F...)
	nf[path[0]] = setPath(nf[path[0]], path[1:], nv)
	return StructV{nf}
}

// typeAtPath returns the type of the component of t at the textual element path (".i" steps, "*" deref).
func fieldPathString(path []int) string {
	var b strings.Builder
	for _, i := range path {
		fmt.Fprintf(&b, ".%d", i)
	}
	return b.String()
}

func sortedKeys(m map[string]int) []string {
	var ks []string
	for k := range m {
		ks = append(ks, k)
	}
	sort.Strings(ks)
	return ks
}
