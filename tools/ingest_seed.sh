#!/bin/sh
# ingest_seed.sh <clone-name under /tmp/wt> <seed id> <props...>: copies a sub-agent's deliverables into seeded/<id>, validates them
# (tools/validate_seed.sh) and runs the given checks against the seed on a scratch copy (tools/try_seed.sh).
cd "$(dirname "$0")/.."
c="$1"; id="$2"; shift 2
mkdir -p seeded/$id
cp /tmp/wt/$c/out/patch.diff /tmp/wt/$c/out/meta.json seeded/$id/ || exit 2
if [ -f /tmp/wt/$c/out/demo_test.go.txt ]; then cp /tmp/wt/$c/out/demo_test.go.txt seeded/$id/demo_test.go; else cp /tmp/wt/$c/out/demo_test.go seeded/$id/demo_test.go; fi
tools/validate_seed.sh "$(pwd)/seeded/$id"
tools/try_seed.sh seeded/$id "$@" | cut -c1-200
