//go:build verif

package rtcp

// Input generators for the bounded stand-ins (see /verif/govc/bounded.go and DESIGN.md §10). This file is injected
// into package rtcp through `go test -overlay`; it is never written to /repo. Each generator returns the
// parameters of the function under a `bounded` contract, receiver first. Case i of seed s is reproducible: the
// harness seeds rng with s*1000003+i.
//
// Bounds: at most 5 report blocks per extended report, lists of at most 9 elements, buffers of at most 96 random
// octets; every scalar field is drawn from its whole range, with the extremes favoured.

import (
	"fmt"
	"math/rand"
	"reflect"
	"strings"
)

func govcU32(r *rand.Rand) uint32 {
	switch r.Intn(6) {
	case 0:
		return 0
	case 1:
		return 0xFFFFFFFF
	case 2:
		return uint32(1) << uint(r.Intn(32))
	}
	return r.Uint32()
}

func govcU16(r *rand.Rand) uint16 { return uint16(govcU32(r) >> uint(16*r.Intn(2))) }
func govcU8(r *rand.Rand) uint8   { return uint8(govcU32(r) >> uint(8*r.Intn(4))) }

func govcLen(r *rand.Rand) int {
	switch r.Intn(4) {
	case 0:
		return 0
	case 1:
		return 1 + r.Intn(2)
	}
	return r.Intn(10)
}

// govcBlock: a report block of kind k (0..7) with arbitrary field values; the XRHeader is arbitrary too, as it is
// for a block that was decoded earlier or built by hand (Marshal fills it in).
func govcBlock(r *rand.Rand, k int) ReportBlock {
	hdr := XRHeader{BlockType: BlockTypeType(govcU8(r)), TypeSpecific: TypeSpecificField(govcU8(r)), BlockLength: govcU16(r)}
	if r.Intn(2) == 0 {
		hdr = XRHeader{}
	}
	switch k {
	case 0, 1:
		n := govcLen(r)
		var cs []Chunk
		for i := 0; i < n; i++ {
			cs = append(cs, Chunk(govcU16(r)))
		}
		b := rleReportBlock{XRHeader: hdr, T: govcU8(r), SSRC: govcU32(r), BeginSeq: govcU16(r), EndSeq: govcU16(r), Chunks: cs}
		if k == 0 {
			v := LossRLEReportBlock(b)
			return &v
		}
		v := DuplicateRLEReportBlock(b)
		return &v
	case 2:
		n := govcLen(r)
		var ts []uint32
		for i := 0; i < n; i++ {
			ts = append(ts, govcU32(r))
		}
		return &PacketReceiptTimesReportBlock{XRHeader: hdr, T: govcU8(r), SSRC: govcU32(r), BeginSeq: govcU16(r), EndSeq: govcU16(r), ReceiptTime: ts}
	case 3:
		return &ReceiverReferenceTimeReportBlock{XRHeader: hdr, NTPTimestamp: uint64(govcU32(r))<<32 | uint64(govcU32(r))}
	case 4:
		n := govcLen(r)
		var rs []DLRRReport
		for i := 0; i < n; i++ {
			rs = append(rs, DLRRReport{SSRC: govcU32(r), LastRR: govcU32(r), DLRR: govcU32(r)})
		}
		return &DLRRReportBlock{XRHeader: hdr, Reports: rs}
	case 5:
		return &StatisticsSummaryReportBlock{XRHeader: hdr, LossReports: r.Intn(2) == 0, DuplicateReports: r.Intn(2) == 0, JitterReports: r.Intn(2) == 0,
			TTLorHopLimit: TTLorHopLimitType(r.Intn(4)), SSRC: govcU32(r), BeginSeq: govcU16(r), EndSeq: govcU16(r), LostPackets: govcU32(r),
			DupPackets: govcU32(r), MinJitter: govcU32(r), MaxJitter: govcU32(r), MeanJitter: govcU32(r), DevJitter: govcU32(r),
			MinTTLOrHL: govcU8(r), MaxTTLOrHL: govcU8(r), MeanTTLOrHL: govcU8(r), DevTTLOrHL: govcU8(r)}
	case 6:
		return &VoIPMetricsReportBlock{XRHeader: hdr, SSRC: govcU32(r), LossRate: govcU8(r), DiscardRate: govcU8(r), BurstDensity: govcU8(r),
			GapDensity: govcU8(r), BurstDuration: govcU16(r), GapDuration: govcU16(r), RoundTripDelay: govcU16(r), EndSystemDelay: govcU16(r),
			SignalLevel: govcU8(r), NoiseLevel: govcU8(r), RERL: govcU8(r), Gmin: govcU8(r), RFactor: govcU8(r), ExtRFactor: govcU8(r),
			MOSLQ: govcU8(r), MOSCQ: govcU8(r), RXConfig: govcU8(r), JBNominal: govcU16(r), JBMaximum: govcU16(r), JBAbsMax: govcU16(r)}
	default:
		n := govcLen(r)
		if r.Intn(3) != 0 {
			n = 4 * (n / 2)
		}
		bs := make([]byte, n)
		r.Read(bs)
		t := BlockTypeType(0)
		if r.Intn(4) != 0 {
			t = BlockTypeType(8 + r.Intn(248))
		}
		return &UnknownReportBlock{XRHeader: XRHeader{BlockType: t, TypeSpecific: TypeSpecificField(govcU8(r)), BlockLength: hdr.BlockLength}, Bytes: bs}
	}
}

func govcXR(r *rand.Rand, i int) ExtendedReport {
	x := ExtendedReport{SenderSSRC: govcU32(r)}
	n := r.Intn(6)
	if i < 8 {
		// the first cases: one block of each kind
		x.Reports = []ReportBlock{govcBlock(r, i)}
		return x
	}
	for j := 0; j < n; j++ {
		x.Reports = append(x.Reports, govcBlock(r, r.Intn(8)))
	}
	return x
}

// genXR: receiver of ExtendedReport.Marshal / MarshalSize and argument of the XR lemmas.
func genXR(r *rand.Rand, i int) ExtendedReport { return govcXR(r, i) }

// genWireSize: an extended report by value or a pointer to a report block.
func genWireSize(r *rand.Rand, i int) interface{} {
	if i%3 == 0 {
		return govcXR(r, i/3)
	}
	return govcBlock(r, i%8)
}

// genWrite: a byte slice or an extended report (block headers set up as Marshal does), and a buffer that is
// exactly large enough, larger, or too small.
func genWrite(r *rand.Rand, i int) (*packetBuffer, interface{}) {
	var v interface{}
	need := 0
	if i%4 == 0 {
		bs := make([]byte, r.Intn(13))
		r.Read(bs)
		v, need = bs, len(bs)
	} else {
		x := govcXR(r, i/4)
		for _, p := range x.Reports {
			p.setupBlockHeader()
		}
		v, need = x, 4+specXRBlocksLen(x.Reports, len(x.Reports))
	}
	n := need
	switch r.Intn(4) {
	case 0:
		n = need + 1 + r.Intn(9)
	case 1:
		if need > 0 {
			n = r.Intn(need)
		}
	}
	buf := make([]byte, n)
	if r.Intn(2) == 0 {
		r.Read(buf) // stale content must be overwritten (except the reserved octet of a VoIP block)
	}
	return &packetBuffer{bytes: buf}, v
}

// genRead: arbitrary octets (with a bias towards lengths that fit the target) and a zero-valued target of each
// kind the decoder reads into.
func genRead(r *rand.Rand, i int) (*packetBuffer, interface{}) {
	k := i % 10
	var v interface{}
	fixed, elem := 0, 0
	switch k {
	case 0:
		v, fixed, elem = new(LossRLEReportBlock), 12, 2
	case 1:
		v, fixed, elem = new(DuplicateRLEReportBlock), 12, 2
	case 2:
		v, fixed, elem = new(PacketReceiptTimesReportBlock), 12, 4
	case 3:
		v, fixed = new(ReceiverReferenceTimeReportBlock), 12
	case 4:
		v, fixed, elem = new(DLRRReportBlock), 4, 12
	case 5:
		v, fixed = new(StatisticsSummaryReportBlock), 40
	case 6:
		v, fixed = new(VoIPMetricsReportBlock), 36
	case 7:
		v, fixed, elem = new(UnknownReportBlock), 4, 1
	case 8:
		v, fixed = new(XRHeader), 4
	default:
		v, fixed = new(uint32), 4
	}
	n := fixed + elem*govcLen(r)
	switch r.Intn(4) {
	case 0:
		n = r.Intn(97)
	case 1:
		n += r.Intn(5)
	}
	buf := make([]byte, n)
	r.Read(buf)
	if r.Intn(8) == 0 {
		for j := range buf {
			buf[j] = 0xFF
		}
	}
	return &packetBuffer{bytes: buf}, v
}

// genRaw: an octet string for ExtendedReport.Unmarshal-based lemmas: either the encoding of a generated report
// (possibly with a few octets flipped or cut) or noise behind a plausible header.
func genRaw(r *rand.Rand, i int) []byte {
	x := govcXR(r, i)
	raw, err := x.Marshal()
	if err != nil || r.Intn(5) == 0 {
		raw = make([]byte, 4*r.Intn(24))
		r.Read(raw)
		if len(raw) >= 4 {
			raw[0], raw[1] = 0x80, 207
			raw[2], raw[3] = byte((len(raw)/4-1)>>8), byte(len(raw)/4-1)
		}
		return raw
	}
	switch r.Intn(4) {
	case 0:
		for j := 0; j < 1+r.Intn(3) && len(raw) > 0; j++ {
			raw[r.Intn(len(raw))] ^= byte(1 << uint(r.Intn(8)))
		}
	case 1:
		raw = raw[:r.Intn(len(raw)+1)]
	}
	return raw
}

// govcDescribe renders the inputs of a case (pointers inside interfaces are followed).
func govcDescribe(args ...interface{}) string {
	var parts []string
	for _, a := range args {
		parts = append(parts, govcShow(reflect.ValueOf(a), 0))
	}
	s := strings.Join(parts, " | ")
	if len(s) > 1500 {
		s = s[:1500] + "…"
	}
	return s
}

func govcShow(v reflect.Value, depth int) string {
	if !v.IsValid() {
		return "nil"
	}
	if depth > 6 {
		return "…"
	}
	switch v.Kind() {
	case reflect.Ptr, reflect.Interface:
		if v.IsNil() {
			return "nil"
		}
		if v.Kind() == reflect.Ptr {
			return "&" + govcShow(v.Elem(), depth+1)
		}
		return govcShow(v.Elem(), depth+1)
	case reflect.Struct:
		var fs []string
		for i := 0; i < v.NumField(); i++ {
			fs = append(fs, v.Type().Field(i).Name+":"+govcShow(v.Field(i), depth+1))
		}
		return v.Type().Name() + "{" + strings.Join(fs, " ") + "}"
	case reflect.Slice:
		if v.Type().Elem().Kind() == reflect.Uint8 {
			return fmt.Sprintf("%x(len %d)", v.Bytes(), v.Len())
		}
		var es []string
		for i := 0; i < v.Len(); i++ {
			es = append(es, govcShow(v.Index(i), depth+1))
		}
		return "[" + strings.Join(es, " ") + "]"
	case reflect.Bool:
		return fmt.Sprint(v.Bool())
	case reflect.Uint8, reflect.Uint16, reflect.Uint32, reflect.Uint64, reflect.Uint:
		return fmt.Sprintf("%#x", v.Uint())
	case reflect.Int, reflect.Int8, reflect.Int16, reflect.Int32, reflect.Int64:
		return fmt.Sprint(v.Int())
	}
	return "?"
}
