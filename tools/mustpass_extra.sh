#!/bin/sh
# mustpass_extra.sh <props...>: runs the given checks on EVERY refactoring of the must-pass corpus (not only on the
# properties listed for it in expect.json) — used after engine changes that widen what a check proves (lemma support).
cd "$(dirname "$0")/.."
V=$(pwd); export GOFLAGS=-mod=mod GOPROXY=off GOSUMDB=off GOTOOLCHAIN=local
bad=0
k=0
for f in selftest/refactors/*.patch; do
  k=$((k+1)); [ $((k % ${STEP:-1})) -eq 0 ] || continue   # STEP=n: every n-th refactoring only
  scratch=$(mktemp -d /tmp/govc-scratch.XXXXXX); out=$(mktemp -d /tmp/govc-out.XXXXXX)
  git -C /repo archive HEAD | tar -x -C "$scratch"; cp known_findings.json "$out/"; cp -r known bounded "$out/"
  if ! (cd "$scratch" && git apply "$V/$f" 2>/dev/null && go build ./... 2>/dev/null); then echo "$(basename $f) PATCH-BROKEN"; rm -rf "$scratch" "$out"; continue; fi
  for p in "$@"; do
    res=$(timeout 900 bin/govc check --property $p --tier quick --repo "$scratch" --verif "$out" 2>&1); rc=$?
    if [ $rc -eq 0 ]; then echo "$(basename $f) $p PASS"; else echo "$(basename $f) $p FALSE-ALARM rc=$rc $(echo "$res" | grep '^VIOLATION\|contract error' | head -1 | cut -c1-160)"; bad=1; fi
  done
  rm -rf "$scratch" "$out"
done
exit $bad
