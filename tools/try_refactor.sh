#!/bin/sh
# try_refactor.sh <diff> [props...]: applies a behaviour-preserving diff to a scratch copy of /repo HEAD and runs the given checks
# (default: all 18); prints PASS or FALSE-ALARM per property.
cd "$(dirname "$0")/.."; V=$(pwd); d="$1"; shift
props="$*"; [ -n "$props" ] || props="C01 C02 C03 C04 C05 C06 C07 C08 C09 C10 C11 C12 C13 C14 C15 C16 C17 C18"
export GOFLAGS=-mod=mod GOPROXY=off GOSUMDB=off GOTOOLCHAIN=local
S=$(mktemp -d /tmp/govc-scratch.XXXXXX); O=$(mktemp -d /tmp/govc-out.XXXXXX)
git -C /repo archive HEAD | tar -x -C "$S"; cp "$V/known_findings.json" "$O/"; cp -r "$V/known" "$V/bounded" "$O/"
(cd "$S" && git apply "$d") || { echo "$(basename $d) PATCH-DOES-NOT-APPLY"; rm -rf "$S" "$O"; exit 2; }
(cd "$S" && go build ./... && go test -vet=off -count=1 ./... >/dev/null 2>&1) || { echo "$(basename $d) SUITE-FAILS"; rm -rf "$S" "$O"; exit 2; }
for p in $props; do
  res=$("$V/bin/govc" check --property "$p" --tier quick --repo "$S" --verif "$O" 2>&1); rc=$?
  if [ $rc -eq 0 ]; then echo "$(basename $(dirname $(dirname $d)))/$(basename $d) $p PASS"; else echo "$(basename $(dirname $(dirname $d)))/$(basename $d) $p FALSE-ALARM rc=$rc $(echo "$res" | grep '^VIOLATION\|contract error' | head -2 | sed 's/replay=[^ ]* //' | cut -c1-170 | tr '\n' ';')"; fi
done
rm -rf "$S" "$O"
