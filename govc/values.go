package main

import (
	"fmt"
	"go/types"
	"math/big"
	"strings"

	"golang.org/x/tools/go/ssa"
)

// ---------- symbolic values ----------

type Value interface{}

type IntV struct {
	T      *Term // BV sort for fixed-width integers, Int sort for Go int / untyped
	Signed bool
}
type BoolV struct{ T *Term }
type FloatV struct {
	T    *Term
	Bits int
}
type StructV struct{ F []Value }

// SliceV: R == nil means the nil slice (Len = Cap = 0).
type SliceV struct {
	R             *Region
	Off, Len, Cap *Term
}

// StringV: an immutable byte sequence.
type StringV struct {
	R        *Region
	Off, Len *Term
	Lit      *string // non-nil for literals (content also in R)
}

// PtrV points to (a field path inside) a heap object with concrete identity. Obj == nil is the nil pointer.
type PtrV struct {
	Obj  *Object
	Path []int
}

// ElemPtr points to (a sub-path of) element Idx of a region.
type ElemPtr struct {
	R    *Region
	Idx  *Term
	Path string // component path inside the element ("" = whole element)
	Typ  types.Type
	Nil  *Term // non-nil term: the pointer may be nil (pointer read from symbolic memory)
}
type GlobalPtr struct{ G *ssa.Global }

// IfaceV is an interface value with a known dynamic type (Typ == nil: nil interface).
type IfaceV struct {
	Typ types.Type
	V   Value
}

// SymIface is an interface value read from symbolic memory: the dynamic type is Tag (an Int term, see typeID).
type SymIface struct {
	Tag  *Term
	R    *Region
	Idx  *Term
	Path string
	Typ  types.Type // static interface type
}

// ErrV is a value of type error. ID distinguishes non-nil errors (only meaningful when !Nil).
type ErrV struct {
	Nil *Term
	ID  *Term
}
type FuncV struct {
	Fn    *ssa.Function
	Binds []Value
	Sym   *SymFunc // unknown function (callback parameter)
}
type SymFunc struct {
	Name string
	Sig  *types.Signature
}
type TupleV []Value
type MapV struct {
	Keys []Value
	Vals []Value
}
type BuiltinV struct{ B *ssa.Builtin }

type Object struct {
	id    int
	fresh bool // allocated in the activation under verification
	name  string
}

// ---------- types ----------

// intWidth returns the SMT width of an integer type: 0 = not an integer, -1 = mathematical Int.
func intWidth(t types.Type) (w int, signed bool, ok bool) {
	b, isB := t.Underlying().(*types.Basic)
	if !isB {
		return 0, false, false
	}
	switch b.Kind() {
	case types.Int8:
		return 8, true, true
	case types.Uint8:
		return 8, false, true
	case types.Int16:
		return 16, true, true
	case types.Uint16:
		return 16, false, true
	case types.Int32, types.UntypedRune:
		return 32, true, true
	case types.Uint32:
		return 32, false, true
	case types.Int, types.UntypedInt:
		return -1, true, true
	case types.Int64:
		return 64, true, true
	case types.Uint64, types.Uint, types.Uintptr:
		return 64, false, true
	}
	return 0, false, false
}

func intSort(t types.Type) (*Sort, bool, bool) {
	w, s, ok := intWidth(t)
	if !ok {
		return nil, false, false
	}
	if w < 0 {
		return SortInt, s, true
	}
	return BVSort(w), s, true
}

func isBoolType(t types.Type) bool {
	b, ok := t.Underlying().(*types.Basic)
	return ok && b.Info()&types.IsBoolean != 0
}
func isStringType(t types.Type) bool {
	b, ok := t.Underlying().(*types.Basic)
	return ok && b.Info()&types.IsString != 0
}
func floatBits(t types.Type) int {
	b, ok := t.Underlying().(*types.Basic)
	if !ok {
		return 0
	}
	switch b.Kind() {
	case types.Float32:
		return 32
	case types.Float64, types.UntypedFloat:
		return 64
	}
	return 0
}
func isErrorType(t types.Type) bool {
	return types.Identical(t, types.Universe.Lookup("error").Type())
}
func isByteType(t types.Type) bool {
	b, ok := t.Underlying().(*types.Basic)
	return ok && b.Kind() == types.Uint8
}

// scalarSort: the SMT sort of a scalar Go type (ints, bool, float); nil if not scalar.
func scalarSort(t types.Type) *Sort {
	if s, _, ok := intSort(t); ok {
		return s
	}
	if isBoolType(t) {
		return SortBool
	}
	if fb := floatBits(t); fb > 0 {
		return FPSort(fb)
	}
	return nil
}

var zeroBig = new(big.Int)

func typeSize(t types.Type) int64 {
	return types.SizesFor("gc", "amd64").Sizeof(t)
}

func relType(t types.Type) string {
	return types.TypeString(t, func(p *types.Package) string {
		if p.Path() == "github.com/pion/rtcp" {
			return ""
		}
		return p.Name()
	})
}

func fnKey(fn *ssa.Function) string {
	s := fn.String()
	s = strings.ReplaceAll(s, "github.com/pion/rtcp.", "")
	return s
}

func toInt(v IntV) *Term {
	if v.T.IsInt() {
		return v.T
	}
	return BVToInt(v.T, v.Signed)
}

func convInt(v IntV, to types.Type) IntV {
	s, sg, ok := intSort(to)
	if !ok {
		panic("convInt to " + to.String())
	}
	switch {
	case v.T.IsInt() && s.K == KInt:
		return IntV{v.T, sg}
	case v.T.IsInt():
		return IntV{IntToBV(v.T, s.W), sg}
	case s.K == KInt:
		return IntV{BVToInt(v.T, v.Signed), sg}
	case s.W == v.T.W():
		return IntV{v.T, sg}
	case s.W < v.T.W():
		return IntV{Extract(s.W-1, 0, v.T), sg}
	case v.Signed:
		return IntV{SignExt(v.T, s.W), sg}
	default:
		return IntV{ZeroExt(v.T, s.W), sg}
	}
}

func (u *Unit) unsupported(format string, a ...interface{}) {
	u.unsup[fmt.Sprintf(format, a...)]++
}
