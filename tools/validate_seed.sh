#!/bin/sh
# validate_seed.sh <seed-dir>: checks, in a scratch worktree of /repo HEAD, that the patch applies, the suite
# still passes with it, the demo fails with it and passes without it. Prints one summary line.
set -u
d="$1"; id=$(basename "$d")
export GOFLAGS=-mod=mod GOPROXY=off GOSUMDB=off GOTOOLCHAIN=local
wt=$(mktemp -d /tmp/seedwt.XXXXXX); rmdir "$wt"
git -C /repo worktree add -q --detach "$wt" HEAD || { echo "$id: worktree failed"; exit 2; }
trap 'git -C /repo worktree remove --force "$wt" >/dev/null 2>&1' EXIT
cd "$wt"
cp "$d/demo_test.go" zz_seed_demo_test.go
run=$(grep -o 'func Test[A-Za-z0-9_]*' zz_seed_demo_test.go | head -1 | sed 's/func //')
base=$(go test -vet=off -count=1 -run "^$run\$" . 2>&1 | tail -1)
if ! git apply "$d/patch.diff" 2>/dev/null; then echo "$id: PATCH-DOES-NOT-APPLY"; exit 1; fi
build=$(go build ./... 2>&1 | tail -1)
withp=$(go test -vet=off -count=1 -run "^$run\$" . 2>&1 | tail -1)
rm zz_seed_demo_test.go
suite=$(go test -vet=off -count=1 ./... 2>&1 | tail -1)
echo "$id: demo-without-patch=[$base] demo-with-patch=[$withp] suite-with-patch=[$suite] $build"
