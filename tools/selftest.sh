#!/bin/sh
# selftest.sh [canaries|seeded|all]: must-fail corpus. Every patch is applied to a scratch copy of /repo's HEAD
# (never to /repo itself), the check of each property it is expected to break is run with --repo <copy> and a
# private output directory, and the copy is removed. Prints DETECTED / MISSED per patch and property; exit 1 if
# anything expected is missed.
cd "$(dirname "$0")/.."
V=$(pwd)
what="${1:-all}"
export GOFLAGS=-mod=mod GOPROXY=off GOSUMDB=off GOTOOLCHAIN=local
[ -x bin/govc ] || ./setup.sh >&2
miss=0
run_one() { # id patch props...
  id="$1"; patch="$2"; shift 2
  scratch=$(mktemp -d /tmp/govc-scratch.XXXXXX)
  out=$(mktemp -d /tmp/govc-out.XXXXXX)
  git -C /repo archive HEAD | tar -x -C "$scratch"
  cp "$V/known_findings.json" "$out/"; cp -r "$V/known" "$V/bounded" "$out/"
  if ! (cd "$scratch" && git apply "$patch" 2>/dev/null); then echo "$id PATCH-DOES-NOT-APPLY"; rm -rf "$scratch" "$out"; return; fi
  for p in "$@"; do
    res=$(timeout 900 "$V/bin/govc" check --property "$p" --tier quick --repo "$scratch" --verif "$out" 2>&1); rc=$?
    first=$(echo "$res" | grep '^VIOLATION' | head -1 | sed 's/replay=[^ ]* //' | cut -c1-150)
    n=$(echo "$res" | grep -c '^VIOLATION')
    if [ $rc -eq 1 ]; then echo "$id $p DETECTED violations=$n [$first]"; else echo "$id $p MISSED rc=$rc"; miss=1; fi
  done
  rm -rf "$scratch" "$out"
}
if [ "$what" = canaries ] || [ "$what" = all ]; then
  for f in selftest/canaries/*.patch; do
    props=$(python3 -c "import json,sys;print(' '.join(json.load(open('selftest/canaries/expect.json'))['$(basename $f)']['properties']))")
    run_one "canary:$(basename $f | cut -c1-40)" "$V/$f" $props
  done
fi
if [ "$what" = seeded ] || [ "$what" = all ]; then
  for d in seeded/*/; do
    id=$(basename $d)
    props=$(python3 -c "import json;print(' '.join(json.load(open('$d/meta.json')).get('detected_by',[])))")
    [ -n "$props" ] && run_one "seeded:$id" "$V/$d/patch.diff" $props
  done
fi
exit $miss
