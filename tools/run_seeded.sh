#!/bin/sh
# run_seeded.sh [ids...]: applies each seeded change to /repo, runs the check of the property it targets (and
# any extra properties listed in seeded/<id>/also), reverts, and prints DETECTED / MISSED per seed.
cd "$(dirname "$0")/.."
[ -z "$(git -C /repo status --porcelain)" ] || { echo "/repo has uncommitted changes"; exit 2; }
ids="$*"; [ -n "$ids" ] || ids=$(ls seeded)
for id in $ids; do
  d=seeded/$id
  prop=$(python3 -c "import json;print(json.load(open('$d/meta.json'))['property'])")
  git -C /repo apply "$(pwd)/$d/patch.diff" || { echo "$id: patch does not apply"; continue; }
  res=""
  for p in $prop $(cat $d/also 2>/dev/null); do
    out=$(timeout 900 ./check $p quick 2>&1); rc=$?
    n=$(echo "$out" | grep -c '^VIOLATION')
    first=$(echo "$out" | grep '^VIOLATION' | head -2 | sed 's/replay=[^ ]* //' | cut -c1-170 | tr '\n' ';')
    res="$res $p:rc=$rc,violations=$n [$first]"
  done
  git -C /repo checkout -- . ; git -C /repo clean -fdq
  case "$res" in *"rc=1"*) echo "$id DETECTED $res";; *) echo "$id MISSED $res";; esac
done
