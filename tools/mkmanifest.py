#!/usr/bin/env python3
# Regenerates /verif/MANIFEST.json from tools/claims.json (per-property claim texts) and the /repo log.
import json, subprocess, os
root = os.path.dirname(os.path.dirname(os.path.abspath(__file__)))
props = [json.loads(l) for l in open(os.path.join(root, 'properties.jsonl'))]
claims = json.load(open(os.path.join(root, 'tools', 'claims.json')))
log = subprocess.run(['git', '-C', '/repo', 'log', '--format=%h %s'], capture_output=True, text=True).stdout.strip().split('\n')
hooks = [l.split()[0] for l in log if l.split(' ', 1)[1].startswith('verif hooks')]
checks, na = [], []
for p in props:
    c = claims.get(p['id'])
    if not c or not c.get('claimed'):
        na.append({"property_id": p['id'], "reason": (c or {}).get('reason', 'check not built yet')})
        continue
    checks.append({
        "property_id": p['id'],
        "quick_cmd": "./check %s quick" % p['id'],
        "thorough_cmd": "./check %s thorough" % p['id'],
        "evidence_file": "evidence/%s.json" % p['id'],
        "replay_cmd_template": "./check --replay {path}",
        "engine": "govc",
        "level_claimed": {"category": c.get('category', 'proof'), "text": c['text'], "design_ref": c.get('design_ref', 'DESIGN.md section 4')},
        "level_note": c['note'],
        "technique": c.get('technique', 'contract-based deductive verification: weakest-precondition style VCs generated from go/ssa of the real functions against //@ contracts, discharged by z3/cvc5'),
    })
m = {"version": 1, "setup_cmd": "./setup.sh",
     "hooks": {"guard": "verif", "enable": "-tags verif", "baseline_off_cmd": "cd /repo && go test -vet=off -count=1 ./...", "source_commits": hooks, "add_only": True},
     "engines": [{"name": "govc", "path": "govc", "serves_properties": [c['property_id'] for c in checks],
                  "kind_free_text": "VC generator over go/ssa (naive form) of the real /repo sources with //@ contracts in /repo/verif_contracts.go; obligations discharged by z3 4.8.12 / z3 5.1.0 / cvc5 1.0.3"}],
     "checks": checks, "notes": "see DESIGN.md", "not_applicable": na}
json.dump(m, open(os.path.join(root, 'MANIFEST.json'), 'w'), indent=1)
print(len(checks), 'claimed;', len(na), 'not applicable')
