package rtcp

// Witness tests for the entries of /verif/known_findings.json. Injected with `go test -overlay`; each test
// prints DEFECT-PRESENT when the recorded defect still reproduces on the real code.

import (
	"fmt"
	"testing"
)

func TestKnownSLIAccepts205(t *testing.T) {
	var p SliceLossIndication
	// PT 205 (transport-specific feedback) with FMT 2 is not an SLI per RFC 4585
	err := p.Unmarshal([]byte{0x82, 0xcd, 0x00, 0x03, 0, 0, 0, 1, 0, 0, 0, 2, 0x55, 0x50, 0x00, 0x2C})
	if err == nil {
		fmt.Println("DEFECT-PRESENT SliceLossIndication.Unmarshal accepted PT 205")
	}
}

func TestKnownREMBMantissaZero(t *testing.T) {
	var p ReceiverEstimatedMaximumBitrate
	// exponent 0, mantissa 0: the wire value is 0 * 2^0 = 0
	err := p.Unmarshal([]byte{0x8f, 0xce, 0x00, 0x04, 0, 0, 0, 1, 0, 0, 0, 0, 'R', 'E', 'M', 'B', 0, 0x00, 0x00, 0x00})
	if err == nil && p.Bitrate != 0 {
		fmt.Println("DEFECT-PRESENT REMB mantissa 0 decoded to", p.Bitrate)
	}
}

func TestKnownCCFBNumReports(t *testing.T) {
	b := CCFeedbackReportBlock{MediaSSRC: 1, BeginSequence: 7, MetricBlocks: []CCFeedbackMetricBlock{{Received: true}}}
	buf, err := b.marshal()
	if err == nil && len(buf) >= 8 && (uint16(buf[6])<<8|uint16(buf[7])) != 1 {
		fmt.Println("DEFECT-PRESENT one metric block marshalled with num_reports", uint16(buf[6])<<8|uint16(buf[7]))
	}
}

func TestKnownCCFBNumReportsDecode(t *testing.T) {
	var b CCFeedbackReportBlock
	err := b.unmarshal([]byte{0, 0, 0, 1, 0, 7, 0, 1, 0x80, 0, 0x80, 0})
	if err == nil && len(b.MetricBlocks) != 1 {
		fmt.Println("DEFECT-PRESENT num_reports 1 decoded to", len(b.MetricBlocks), "metric blocks")
	}
}

func TestKnownCCFBIgnoresFMT(t *testing.T) {
	var p CCFeedbackReport
	err := p.Unmarshal([]byte{0x80, 0xcd, 0x00, 0x02, 0, 0, 0, 1, 0, 0, 0, 2})
	if err == nil {
		fmt.Println("DEFECT-PRESENT CCFeedbackReport.Unmarshal accepted FMT 0")
	}
}

func TestKnownXRUnalignedBlock(t *testing.T) {
	// one Loss RLE block with a single chunk: 14 octets of block, no terminating null chunk added
	x := ExtendedReport{SenderSSRC: 1, Reports: []ReportBlock{&LossRLEReportBlock{SSRC: 2, BeginSeq: 1, EndSeq: 2, Chunks: []Chunk{0x4001}}}}
	out, err := x.Marshal()
	if err == nil && len(out)%4 != 0 {
		fmt.Println("DEFECT-PRESENT XR with an odd chunk count marshalled to", len(out), "octets")
	}
}
