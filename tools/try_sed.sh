#!/bin/sh
# try_sed.sh <file> <sed-expr> <props...>: applies a sed edit to a scratch copy of /repo HEAD and runs the given checks (ad-hoc must-fail probe).
cd "$(dirname "$0")/.."; V=$(pwd); f="$1"; e="$2"; shift 2
export GOFLAGS=-mod=mod GOPROXY=off GOSUMDB=off GOTOOLCHAIN=local
S=$(mktemp -d /tmp/govc-scratch.XXXXXX); O=$(mktemp -d /tmp/govc-out.XXXXXX)
git -C /repo archive HEAD | tar -x -C "$S"; cp "$V/known_findings.json" "$O/"; cp -r "$V/known" "$V/bounded" "$O/"
cp "$S/$f" "$S/$f.orig"; sed -i "$e" "$S/$f"; if cmp -s "$S/$f" "$S/$f.orig"; then echo "NO-CHANGE"; rm -rf "$S" "$O"; exit 2; fi; rm "$S/$f.orig"
(cd "$S" && go build ./... 2>&1 | head -3; go test -vet=off -count=1 ./... 2>&1 | tail -1)
for p in "$@"; do "$V/bin/govc" check --property "$p" --tier quick --repo "$S" --verif "$O" 2>&1 | grep '^VIOLATION\|^govc: prop' | sed 's/replay=[^ ]* //' | cut -c1-200 | head -6; done
rm -rf "$S" "$O"
