#!/usr/bin/env python3
# mutation_sweep.py [N] [seed]: small-operator mutation sweep (diagnostic, not part of any registered check).
# For N randomly chosen single-token mutants of /repo's non-test sources that still compile AND pass the existing
# suite, runs the quick checks of the properties whose anchors name the mutated file and prints KILLED (some check
# alarms) or SURVIVED. Survivors are either equivalent mutants or holes in the contracts; they are listed for review.
# Everything happens in scratch copies under /tmp that are removed afterwards.
import json, os, random, re, shutil, subprocess, sys, tempfile
N = int(sys.argv[1]) if len(sys.argv) > 1 else 40
random.seed(int(sys.argv[2]) if len(sys.argv) > 2 else 1)
V = os.path.dirname(os.path.dirname(os.path.abspath(__file__)))
env = dict(os.environ, GOFLAGS='-mod=mod', GOPROXY='off', GOSUMDB='off', GOTOOLCHAIN='local')
props = [json.loads(l) for l in open(os.path.join(V, 'properties.jsonl'))]
byfile = {}
for p in props:
    for f in p['anchors']['files']:
        byfile.setdefault(f, []).append(p['id'])
OPS = [(r'<=', '<'), (r'>=', '>'), (r'(?<![<>=!])<(?![<=])', '<='), (r'(?<![<>=!-])>(?![>=])', '>='), (r'==', '!='), (r'!=', '=='),
       (r'&&', '||'), (r'\|\|', '&&'), (r'\+ 1\b', '+ 2'), (r'- 1\b', '- 2'), (r'\b4\b', '8'), (r'\b2\b', '3'), (r'0x1[fF]\b', '0x0F'),
       (r'0x1FFF\b', '0x0FFF'), (r'0x3[fF]\b', '0x1F'), (r'<< ?8\b', '<< 7'), (r'>> ?5\b', '>> 4'), (r'\+=', '-='), (r'\bappend\(([a-zA-Z.]+), ', r'append(\1[:0], ')]
src = subprocess.run(['git', '-C', '/repo', 'ls-files', '*.go'], capture_output=True, text=True).stdout.split()
src = [f for f in src if not f.endswith('_test.go') and not f.startswith('verif_') and f in byfile]
cands = []
for f in src:
    lines = open(os.path.join('/repo', f)).read().split('\n')
    inblock = False
    for i, l in enumerate(lines):
        s = l.strip()
        if inblock:
            if '*/' in l:
                inblock = False
            continue
        if s.startswith('/*'):
            if '*/' not in l:
                inblock = True
            continue
        if s.startswith('//') or 'errors.New' in l or s.startswith('import') or '"' in l or '`' in l:
            continue
        code = l.split('//')[0]
        for pat, rep in OPS:
            for m in re.finditer(pat, code):
                cands.append((f, i, m.start(), m.end(), pat, rep))
random.shuffle(cands)
done = 0
for (f, i, a, b, pat, rep) in cands:
    if done >= N:
        break
    S = tempfile.mkdtemp(prefix='govc-scratch.', dir='/tmp'); O = tempfile.mkdtemp(prefix='govc-out.', dir='/tmp')
    try:
        subprocess.run('git -C /repo archive HEAD | tar -x -C %s' % S, shell=True, check=True)
        shutil.copy(os.path.join(V, 'known_findings.json'), O)
        for d in ('known', 'bounded'):
            shutil.copytree(os.path.join(V, d), os.path.join(O, d))
        path = os.path.join(S, f)
        lines = open(path).read().split('\n')
        old = lines[i]
        new = old[:a] + re.sub(pat, rep, old[a:b], count=1) + old[b:]
        if new == old:
            continue
        lines[i] = new
        open(path, 'w').write('\n'.join(lines))
        if subprocess.run(['go', 'build', './...'], cwd=S, env=env, capture_output=True).returncode != 0:
            continue
        # a mutant may hang or allocate without bound: address-space limit, test timeout, and a hard timeout that
        # kills the whole process group
        try:
            pr = subprocess.Popen(['sh', '-c', 'ulimit -v 8388608; exec go test -vet=off -count=1 -timeout 120s ./...'], cwd=S, env=env,
                                  stdout=subprocess.DEVNULL, stderr=subprocess.DEVNULL, start_new_session=True)
            rc = pr.wait(timeout=300)
        except subprocess.TimeoutExpired:
            os.killpg(pr.pid, 9)
            continue
        if rc != 0:
            continue  # killed by the existing suite: not interesting here
        done += 1
        killed = []
        for p in byfile[f]:
            r = subprocess.run([os.path.join(V, 'bin', 'govc'), 'check', '--property', p, '--tier', 'quick', '--repo', S, '--verif', O], capture_output=True, text=True, env=env)
            if r.returncode == 1:
                killed.append(p)
        print('%s %s:%d  [%s] -> [%s]  %s' % ('KILLED  ' if killed else 'SURVIVED', f, i + 1, old.strip()[:70], new.strip()[:70], ' '.join(killed)), flush=True)
    finally:
        shutil.rmtree(S, ignore_errors=True); shutil.rmtree(O, ignore_errors=True)
print('done', done)
