#!/bin/sh
# run_all.sh [tier]: runs every claimed check once and prints a summary line each.
cd "$(dirname "$0")/.."
tier="${1:-quick}"
for p in $(python3 -c "import json;print(' '.join(c['property_id'] for c in json.load(open('MANIFEST.json'))['checks']))"); do
  s=$(date +%s); out=$(./check $p $tier 2>&1); rc=$?; e=$(date +%s)
  echo "$p rc=$rc $((e-s))s $(echo "$out" | grep '^govc:' | cut -c1-150)"
  echo "$out" | grep '^VIOLATION\|^KNOWN' | cut -c1-200
done
