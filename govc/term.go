package main

// Hash-consed SMT term DAG with constant folding and a linear normal form for Int terms.

import (
	"fmt"
	"math/big"
	"sort"
	"strings"
	"sync"
)

type SortKind int

const (
	KBool SortKind = iota
	KBV
	KInt
	KFP
	KArr
)

type Sort struct {
	K    SortKind
	W    int // BV width; FP total bits (32/64)
	Idx  *Sort
	Elem *Sort
	S    string
}

var (
	sortMu   sync.Mutex
	sortTab  = map[string]*Sort{}
	SortBool = mkSort(&Sort{K: KBool, S: "Bool"})
	SortInt  = mkSort(&Sort{K: KInt, S: "Int"})
)

func mkSort(s *Sort) *Sort {
	sortMu.Lock()
	defer sortMu.Unlock()
	if x, ok := sortTab[s.S]; ok {
		return x
	}
	sortTab[s.S] = s
	return s
}
func BVSort(w int) *Sort { return mkSort(&Sort{K: KBV, W: w, S: fmt.Sprintf("(_ BitVec %d)", w)}) }
func FPSort(bits int) *Sort {
	if bits == 32 {
		return mkSort(&Sort{K: KFP, W: 32, S: "(_ FloatingPoint 8 24)"})
	}
	return mkSort(&Sort{K: KFP, W: 64, S: "(_ FloatingPoint 11 53)"})
}
func ArrSort(idx, elem *Sort) *Sort {
	return mkSort(&Sort{K: KArr, Idx: idx, Elem: elem, S: "(Array " + idx.S + " " + elem.S + ")"})
}

type Term struct {
	id   int
	Op   string // "var", "const", or an SMT operator (possibly indexed, e.g. "(_ extract 7 0)")
	Args []*Term
	Sort *Sort
	C    *big.Int // constant value (BV: unsigned; Int; Bool: 0/1)
	Name string   // variable name (without bars)
	lin  *lin
	fp   bool // contains floating-point sub-terms
}

var (
	termMu  sync.Mutex
	termTab = map[string]*Term{}
	termN   int
	freshN  int
)

func intern(op string, sort *Sort, name string, c *big.Int, args ...*Term) *Term {
	var b strings.Builder
	b.WriteString(op)
	b.WriteByte('|')
	b.WriteString(sort.S)
	b.WriteByte('|')
	b.WriteString(name)
	if c != nil {
		b.WriteByte('#')
		b.WriteString(c.String())
	}
	for _, a := range args {
		fmt.Fprintf(&b, ",%d", a.id)
	}
	k := b.String()
	termMu.Lock()
	defer termMu.Unlock()
	if t, ok := termTab[k]; ok {
		return t
	}
	termN++
	t := &Term{id: termN, Op: op, Args: args, Sort: sort, C: c, Name: name}
	t.fp = sort.K == KFP || sort.K > KArr
	for _, a := range args {
		if a.fp {
			t.fp = true
		}
	}
	termTab[k] = t
	return t
}

func mask(w int) *big.Int {
	return new(big.Int).Sub(new(big.Int).Lsh(big.NewInt(1), uint(w)), big.NewInt(1))
}

func (t *Term) IsBV() bool   { return t.Sort.K == KBV }
func (t *Term) IsInt() bool  { return t.Sort.K == KInt }
func (t *Term) IsBool() bool { return t.Sort.K == KBool }
func (t *Term) W() int       { return t.Sort.W }
func (t *Term) IsConst() bool {
	return t.C != nil
}
func (t *Term) IsTrue() bool  { return t.Sort.K == KBool && t.C != nil && t.C.Sign() != 0 }
func (t *Term) IsFalse() bool { return t.Sort.K == KBool && t.C != nil && t.C.Sign() == 0 }

// ---- constructors ----

func BVConst(v *big.Int, w int) *Term {
	v = new(big.Int).And(v, mask(w))
	return intern("const", BVSort(w), "", v)
}
func BVInt(v int64, w int) *Term { return BVConst(big.NewInt(v), w) }
func IntConst(v *big.Int) *Term  { return intern("const", SortInt, "", new(big.Int).Set(v)) }
func IntK(v int64) *Term         { return IntConst(big.NewInt(v)) }

var (
	True  = intern("const", SortBool, "", big.NewInt(1))
	False = intern("const", SortBool, "", big.NewInt(0))
)

func BoolK(b bool) *Term {
	if b {
		return True
	}
	return False
}

func Var(name string, s *Sort) *Term { return intern("var", s, name, nil) }

func Fresh(prefix string, s *Sort) *Term {
	termMu.Lock()
	freshN++
	n := freshN
	termMu.Unlock()
	prefix = strings.Map(func(r rune) rune {
		if r == '|' || r == '\\' {
			return '_'
		}
		return r
	}, prefix)
	return Var(fmt.Sprintf("%s!%d", prefix, n), s)
}

func app(op string, s *Sort, args ...*Term) *Term { return intern(op, s, "", nil, args...) }

func signedVal(v *big.Int, w int) *big.Int {
	if v.Bit(w-1) == 1 {
		return new(big.Int).Sub(v, new(big.Int).Lsh(big.NewInt(1), uint(w)))
	}
	return v
}

// ---- booleans ----

func Not(a *Term) *Term {
	if a.C != nil {
		return BoolK(a.C.Sign() == 0)
	}
	if a.Op == "not" {
		return a.Args[0]
	}
	return app("not", SortBool, a)
}

func And(xs ...*Term) *Term {
	var out []*Term
	seen := map[int]bool{}
	for _, x := range xs {
		if x.IsFalse() {
			return False
		}
		if x.IsTrue() || seen[x.id] {
			continue
		}
		if x.Op == "and" {
			for _, y := range x.Args {
				if !seen[y.id] {
					seen[y.id] = true
					out = append(out, y)
				}
			}
			continue
		}
		seen[x.id] = true
		out = append(out, x)
	}
	for _, x := range out {
		if x.Op == "not" && seen[x.Args[0].id] {
			return False
		}
	}
	switch len(out) {
	case 0:
		return True
	case 1:
		return out[0]
	}
	return app("and", SortBool, out...)
}

func Or(xs ...*Term) *Term {
	var out []*Term
	seen := map[int]bool{}
	for _, x := range xs {
		if x.IsTrue() {
			return True
		}
		if x.IsFalse() || seen[x.id] {
			continue
		}
		if x.Op == "or" {
			for _, y := range x.Args {
				if !seen[y.id] {
					seen[y.id] = true
					out = append(out, y)
				}
			}
			continue
		}
		seen[x.id] = true
		out = append(out, x)
	}
	for _, x := range out {
		if x.Op == "not" && seen[x.Args[0].id] {
			return True
		}
	}
	switch len(out) {
	case 0:
		return False
	case 1:
		return out[0]
	}
	return app("or", SortBool, out...)
}

func Implies(a, b *Term) *Term { return Or(Not(a), b) }

func Ite(c, a, b *Term) *Term {
	if c.IsTrue() {
		return a
	}
	if c.IsFalse() {
		return b
	}
	if a == b {
		return a
	}
	if a.Sort != b.Sort {
		panic(fmt.Sprintf("ite sort mismatch %s vs %s", a.Sort.S, b.Sort.S))
	}
	if a.Sort.K == KBool {
		if a.IsTrue() && b.IsFalse() {
			return c
		}
		if a.IsFalse() && b.IsTrue() {
			return Not(c)
		}
		if a.IsTrue() {
			return Or(c, b)
		}
		if a.IsFalse() {
			return And(Not(c), b)
		}
		if b.IsTrue() {
			return Or(Not(c), a)
		}
		if b.IsFalse() {
			return And(c, a)
		}
	}
	return app("ite", a.Sort, c, a, b)
}

func Eq(a, b *Term) *Term {
	if a == b {
		return True
	}
	if a.Sort != b.Sort {
		panic(fmt.Sprintf("= sort mismatch %s vs %s: %s | %s", a.Sort.S, b.Sort.S, a, b))
	}
	if a.C != nil && b.C != nil {
		return BoolK(a.C.Cmp(b.C) == 0)
	}
	switch a.Sort.K {
	case KBool:
		if a.IsTrue() {
			return b
		}
		if b.IsTrue() {
			return a
		}
		if a.IsFalse() {
			return Not(b)
		}
		if b.IsFalse() {
			return Not(a)
		}
	case KInt:
		d := linSub(linOf(a), linOf(b))
		if d.isConst() {
			return BoolK(d.k.Sign() == 0)
		}
	case KFP:
		// structural equality of FP values is not Go's ==; callers use FPEq. Keep "=" for identity.
	}
	if a.id > b.id {
		a, b = b, a
	}
	return app("=", SortBool, a, b)
}

// ---- bit-vectors ----

func BVBin(op string, a, b *Term) *Term {
	if a.Sort != b.Sort || a.Sort.K != KBV {
		panic(fmt.Sprintf("BVBin %s sort mismatch %s %s: %s | %s", op, a.Sort.S, b.Sort.S, a, b))
	}
	w := a.W()
	if a.C != nil && b.C != nil {
		x, y := a.C, b.C
		switch op {
		case "bvadd":
			return BVConst(new(big.Int).Add(x, y), w)
		case "bvsub":
			return BVConst(new(big.Int).Sub(x, y), w)
		case "bvmul":
			return BVConst(new(big.Int).Mul(x, y), w)
		case "bvand":
			return BVConst(new(big.Int).And(x, y), w)
		case "bvor":
			return BVConst(new(big.Int).Or(x, y), w)
		case "bvxor":
			return BVConst(new(big.Int).Xor(x, y), w)
		case "bvshl":
			if y.Cmp(big.NewInt(int64(w))) >= 0 {
				return BVInt(0, w)
			}
			return BVConst(new(big.Int).Lsh(x, uint(y.Int64())), w)
		case "bvlshr":
			if y.Cmp(big.NewInt(int64(w))) >= 0 {
				return BVInt(0, w)
			}
			return BVConst(new(big.Int).Rsh(x, uint(y.Int64())), w)
		case "bvashr":
			sx := signedVal(x, w)
			sh := uint(w)
			if y.Cmp(big.NewInt(int64(w))) < 0 {
				sh = uint(y.Int64())
			}
			return BVConst(new(big.Int).Rsh(sx, sh), w)
		case "bvudiv":
			if y.Sign() != 0 {
				return BVConst(new(big.Int).Div(x, y), w)
			}
		case "bvurem":
			if y.Sign() != 0 {
				return BVConst(new(big.Int).Mod(x, y), w)
			}
		case "bvsdiv":
			if y.Sign() != 0 {
				return BVConst(new(big.Int).Quo(signedVal(x, w), signedVal(y, w)), w)
			}
		case "bvsrem":
			if y.Sign() != 0 {
				return BVConst(new(big.Int).Rem(signedVal(x, w), signedVal(y, w)), w)
			}
		}
	}
	isZero := func(t *Term) bool { return t.C != nil && t.C.Sign() == 0 }
	isOnes := func(t *Term) bool { return t.C != nil && t.C.Cmp(mask(w)) == 0 }
	switch op {
	case "bvadd", "bvor", "bvxor":
		if isZero(a) {
			return b
		}
		if isZero(b) {
			return a
		}
	case "bvsub", "bvshl", "bvlshr", "bvashr":
		if isZero(b) {
			return a
		}
	case "bvand":
		if isZero(a) || isZero(b) {
			return BVInt(0, w)
		}
		if isOnes(a) {
			return b
		}
		if isOnes(b) {
			return a
		}
	case "bvmul":
		if isZero(a) || isZero(b) {
			return BVInt(0, w)
		}
		if a.C != nil && a.C.Cmp(big.NewInt(1)) == 0 {
			return b
		}
		if b.C != nil && b.C.Cmp(big.NewInt(1)) == 0 {
			return a
		}
	}
	switch op {
	case "bvadd", "bvmul", "bvand", "bvor", "bvxor":
		if a.id > b.id {
			a, b = b, a
		}
	}
	t := app(op, a.Sort, a, b)
	if op == "bvor" {
		if x := reassemble(t); x != nil {
			return x
		}
	}
	return t
}

// reassemble recognises a value put back together from its own bytes, (zext(x[15:8]) << 8) | zext(x[7:0]),
// which is what a big-endian Put followed by a big-endian read produces, and returns x.
func reassemble(t *Term) *Term {
	w := t.W()
	type piece struct{ lo, hi int }
	var src *Term
	var ps []piece
	ok := true
	var walk func(x *Term, shift int)
	walk = func(x *Term, shift int) {
		if !ok {
			return
		}
		switch {
		case x.Op == "bvor":
			walk(x.Args[0], shift)
			walk(x.Args[1], shift)
		case x.Op == "bvshl" && x.Args[1].C != nil && x.Args[1].C.IsInt64():
			walk(x.Args[0], shift+int(x.Args[1].C.Int64()))
		case strings.HasPrefix(x.Op, "(_ zero_extend"):
			walk(x.Args[0], shift)
		case strings.HasPrefix(x.Op, "(_ extract"):
			var hi, lo int
			fmt.Sscanf(x.Op, "(_ extract %d %d)", &hi, &lo)
			if src == nil {
				src = x.Args[0]
			}
			if x.Args[0] != src || lo != shift {
				ok = false
				return
			}
			ps = append(ps, piece{lo, hi})
		default:
			ok = false
		}
	}
	walk(t, 0)
	if !ok || src == nil || src.W() != w || len(ps) < 2 {
		return nil
	}
	covered := make([]bool, w)
	for _, p := range ps {
		for i := p.lo; i <= p.hi && i < w; i++ {
			if covered[i] {
				return nil
			}
			covered[i] = true
		}
	}
	for _, c := range covered {
		if !c {
			return nil
		}
	}
	return src
}

func BVNot(a *Term) *Term {
	if a.C != nil {
		return BVConst(new(big.Int).Xor(a.C, mask(a.W())), a.W())
	}
	return app("bvnot", a.Sort, a)
}
func BVNeg(a *Term) *Term { return BVBin("bvsub", BVInt(0, a.W()), a) }

// BVCmp: op in bvult bvule bvslt bvsle
func BVCmp(op string, a, b *Term) *Term {
	if a.Sort != b.Sort || a.Sort.K != KBV {
		panic(fmt.Sprintf("BVCmp %s sort mismatch %s %s", op, a.Sort.S, b.Sort.S))
	}
	if a.C != nil && b.C != nil {
		x, y, w := a.C, b.C, a.W()
		switch op {
		case "bvult":
			return BoolK(x.Cmp(y) < 0)
		case "bvule":
			return BoolK(x.Cmp(y) <= 0)
		case "bvslt":
			return BoolK(signedVal(x, w).Cmp(signedVal(y, w)) < 0)
		case "bvsle":
			return BoolK(signedVal(x, w).Cmp(signedVal(y, w)) <= 0)
		}
	}
	if a == b {
		return BoolK(op == "bvule" || op == "bvsle")
	}
	if op == "bvult" && b.C != nil && b.C.Sign() == 0 {
		return False
	}
	if op == "bvule" && a.C != nil && a.C.Sign() == 0 {
		return True
	}
	return app(op, SortBool, a, b)
}

func Extract(hi, lo int, a *Term) *Term {
	if a.C != nil {
		return BVConst(new(big.Int).Rsh(a.C, uint(lo)), hi-lo+1)
	}
	if lo == 0 && hi == a.W()-1 {
		return a
	}
	if lo == 0 && strings.HasPrefix(a.Op, "(_ zero_extend") && a.Args[0].W() <= hi+1 {
		return ZeroExt(a.Args[0], hi+1)
	}
	return app(fmt.Sprintf("(_ extract %d %d)", hi, lo), BVSort(hi-lo+1), a)
}
func ZeroExt(a *Term, w int) *Term {
	if w == a.W() {
		return a
	}
	if a.C != nil {
		return BVConst(a.C, w)
	}
	if strings.HasPrefix(a.Op, "(_ zero_extend") {
		return ZeroExt(a.Args[0], w)
	}
	return app(fmt.Sprintf("(_ zero_extend %d)", w-a.W()), BVSort(w), a)
}
func SignExt(a *Term, w int) *Term {
	if w == a.W() {
		return a
	}
	if a.C != nil {
		return BVConst(signedVal(a.C, a.W()), w)
	}
	return app(fmt.Sprintf("(_ sign_extend %d)", w-a.W()), BVSort(w), a)
}

// BVToInt converts a bit-vector to a mathematical integer (signed or unsigned reading).
func BVToInt(a *Term, signed bool) *Term {
	if a.C != nil {
		if signed {
			return IntConst(signedVal(a.C, a.W()))
		}
		return IntConst(a.C)
	}
	// bv2nat(zero_extend(x)) == bv2nat(x)
	if strings.HasPrefix(a.Op, "(_ zero_extend") && !signed {
		return BVToInt(a.Args[0], false)
	}
	if strings.HasPrefix(a.Op, "(_ zero_extend") && signed {
		return BVToInt(a.Args[0], false)
	}
	if !signed && strings.HasPrefix(a.Op, "(_ int2bv") {
		// bv2nat(int2bv_w(x)) == x mod 2^w
		return IntModFloor(a.Args[0], IntConst(new(big.Int).Lsh(big.NewInt(1), uint(a.W()))))
	}
	if !signed && a.W() <= 32 {
		if t := lowerBVToInt(a, 3); t != nil {
			return t
		}
	}
	// int2bv round trip is not simplified here (needs range knowledge)
	u := app("bv2nat", SortInt, a)
	if !signed {
		return u
	}
	neg := BVCmp("bvslt", a, BVInt(0, a.W()))
	return Ite(neg, IntSub(u, IntConst(new(big.Int).Lsh(big.NewInt(1), uint(a.W())))), u)
}

// lowerBVToInt expresses the unsigned value of simple bit-vector arithmetic in linear integer arithmetic with
// mod/div by constants (x*c, x+y, x-y, shifts and masks by constants), so that length and index reasoning stays
// inside one theory. Returns nil when the term has no such form.
func lowerBVToInt(a *Term, depth int) *Term {
	w := a.W()
	pow := func(k int) *Term { return IntConst(new(big.Int).Lsh(big.NewInt(1), uint(k))) }
	leaf := func(x *Term) *Term {
		if x.C != nil {
			return IntConst(x.C)
		}
		if depth > 0 {
			if t := lowerBVToInt(x, depth-1); t != nil {
				return t
			}
		}
		if strings.HasPrefix(x.Op, "(_ zero_extend") {
			return BVToInt(x.Args[0], false)
		}
		return app("bv2nat", SortInt, x)
	}
	switch {
	case a.Op == "bvmul" && (a.Args[0].C != nil || a.Args[1].C != nil):
		return IntModFloor(IntMul(leaf(a.Args[0]), leaf(a.Args[1])), pow(w))
	case a.Op == "bvadd":
		return IntModFloor(IntAdd(leaf(a.Args[0]), leaf(a.Args[1])), pow(w))
	case a.Op == "bvsub":
		return IntModFloor(IntSub(leaf(a.Args[0]), leaf(a.Args[1])), pow(w))
	case a.Op == "bvshl" && a.Args[1].C != nil && a.Args[1].C.Cmp(big.NewInt(int64(w))) < 0:
		return IntModFloor(IntMul(leaf(a.Args[0]), pow(int(a.Args[1].C.Int64()))), pow(w))
	case a.Op == "bvlshr" && a.Args[1].C != nil && a.Args[1].C.Cmp(big.NewInt(int64(w))) < 0:
		return IntDivFloor(leaf(a.Args[0]), pow(int(a.Args[1].C.Int64())))
	case a.Op == "bvurem" && a.Args[1].C != nil && a.Args[1].C.Sign() > 0:
		return IntModFloor(leaf(a.Args[0]), IntConst(a.Args[1].C))
	case a.Op == "bvudiv" && a.Args[1].C != nil && a.Args[1].C.Sign() > 0:
		return IntDivFloor(leaf(a.Args[0]), IntConst(a.Args[1].C))
	case a.Op == "bvand":
		for i := 0; i < 2; i++ {
			if c := a.Args[i].C; c != nil {
				m := new(big.Int).Add(c, big.NewInt(1))
				if m.BitLen() > 0 && new(big.Int).And(m, c).Sign() == 0 && c.Sign() > 0 { // c = 2^k - 1
					return IntModFloor(leaf(a.Args[1-i]), IntConst(m))
				}
			}
		}
	}
	return nil
}

// IntMirror returns the linear-integer reading of an unsigned bit-vector comparison over simple arithmetic
// (nil if there is none). It is equivalent to c, and is assumed next to it so that facts established in
// fixed-width arithmetic (4*h.Length <= 8, (4*h.Length)%8 == 0) are available to index reasoning over Int.
func IntMirror(c *Term) *Term {
	if c.Op == "not" {
		if m := IntMirror(c.Args[0]); m != nil {
			return Not(m)
		}
		return nil
	}
	if c.Op != "bvult" && c.Op != "bvule" && c.Op != "=" {
		return nil
	}
	a, b := c.Args[0], c.Args[1]
	if !a.IsBV() || a.W() > 32 {
		return nil
	}
	// only length-like arithmetic is mirrored; masks and shifts stay in the bit-vector theory
	arith := func(t *Term) bool {
		switch t.Op {
		case "bvmul", "bvadd", "bvsub", "bvurem", "bvudiv":
			return lowerBVToInt(t, 3) != nil
		}
		return false
	}
	if !arith(a) && !arith(b) {
		return nil
	}
	ia, ib := BVToInt(a, false), BVToInt(b, false)
	switch c.Op {
	case "bvult":
		return IntLt(ia, ib)
	case "bvule":
		return IntLe(ia, ib)
	}
	return Eq(ia, ib)
}

// IntToBV converts a mathematical integer to a bit-vector of width w (two's complement wrap).
func IntToBV(a *Term, w int) *Term {
	if a.C != nil {
		return BVConst(a.C, w)
	}
	if a.Op == "bv2nat" {
		x := a.Args[0]
		switch {
		case x.W() == w:
			return x
		case x.W() < w:
			return ZeroExt(x, w)
		default:
			return Extract(w-1, 0, x)
		}
	}
	// int2bv_w is a ring homomorphism Z -> Z/2^w: a linear combination of bv2nat's of w-bit vectors (what
	// lowerBVToInt produces for uint arithmetic that was converted to int and back) is rebuilt as bit-vector arithmetic
	if l := linOf(a); len(l.ts) >= 1 && len(l.ts) <= 4 && w <= 32 {
		all := true
		for _, lt := range l.ts {
			if lt.t.Op != "bv2nat" || lt.t.Args[0].W() != w {
				all = false
			}
		}
		if all {
			mod := new(big.Int).Lsh(big.NewInt(1), uint(w))
			acc := BVConst(new(big.Int).Mod(l.k, mod), w)
			for _, lt := range l.ts {
				c := new(big.Int).Mod(lt.c, mod)
				term := lt.t.Args[0]
				if c.Cmp(big.NewInt(1)) != 0 {
					term = BVBin("bvmul", BVConst(c, w), term)
				}
				acc = BVBin("bvadd", acc, term)
			}
			return acc
		}
	}
	// int2bv_w(x mod 2^k) == int2bv_w(x) for k >= w (int2bv is itself modulo 2^w)
	if a.Op == "mod" && len(a.Args) == 2 && a.Args[1].C != nil && w < 63 {
		m := a.Args[1].C
		if m.Sign() > 0 && m.BitLen() > w && new(big.Int).And(m, new(big.Int).Sub(m, big.NewInt(1))).Sign() == 0 {
			return IntToBV(a.Args[0], w)
		}
	}
	return app(fmt.Sprintf("(_ int2bv %d)", w), BVSort(w), a)
}

// ---- arrays ----

func Select(arr, idx *Term) *Term {
	if arr.Sort.K != KArr {
		panic("select on non-array " + arr.String())
	}
	if idx.Sort != arr.Sort.Idx {
		panic("select index sort mismatch")
	}
	// read-over-write with syntactically decidable indices
	for arr.Op == "store" {
		e := Eq(idx, arr.Args[1])
		if e.IsTrue() {
			return arr.Args[2]
		}
		if e.IsFalse() {
			arr = arr.Args[0]
			continue
		}
		break
	}
	if arr.Op == "constarr" {
		return arr.Args[0]
	}
	return app("select", arr.Sort.Elem, arr, idx)
}
func Store(arr, idx, v *Term) *Term {
	if v.Sort != arr.Sort.Elem {
		panic(fmt.Sprintf("store elem sort mismatch %s vs %s", v.Sort.S, arr.Sort.Elem.S))
	}
	return app("store", arr.Sort, arr, idx, v)
}

// ConstArr is ((as const S) v)
func ConstArr(s *Sort, v *Term) *Term { return app("constarr", s, v) }

// ---- Int with linear normal form ----

type linTerm struct {
	t *Term
	c *big.Int
}
type lin struct {
	ts []linTerm // sorted by t.id, coefficients non-zero
	k  *big.Int
}

func (l *lin) isConst() bool { return len(l.ts) == 0 }

func linOf(t *Term) *lin {
	termMu.Lock()
	tl := t.lin
	termMu.Unlock()
	if tl != nil {
		return tl
	}
	var l *lin
	if t.C != nil {
		l = &lin{k: t.C}
	} else {
		l = &lin{ts: []linTerm{{t, big.NewInt(1)}}, k: big.NewInt(0)}
	}
	return l
}

func linAddScaled(a, b *lin, s *big.Int) *lin {
	m := map[int]*linTerm{}
	var ids []int
	add := func(x linTerm, s *big.Int) {
		c := new(big.Int).Mul(x.c, s)
		if y, ok := m[x.t.id]; ok {
			y.c = new(big.Int).Add(y.c, c)
		} else {
			m[x.t.id] = &linTerm{x.t, c}
			ids = append(ids, x.t.id)
		}
	}
	one := big.NewInt(1)
	for _, x := range a.ts {
		add(x, one)
	}
	for _, x := range b.ts {
		add(x, s)
	}
	sort.Ints(ids)
	r := &lin{k: new(big.Int).Add(a.k, new(big.Int).Mul(b.k, s))}
	for _, id := range ids {
		if m[id].c.Sign() != 0 {
			r.ts = append(r.ts, *m[id])
		}
	}
	return r
}
func linSub(a, b *lin) *lin { return linAddScaled(a, b, big.NewInt(-1)) }

func linTermOf(l *lin) *Term {
	if len(l.ts) == 0 {
		return IntConst(l.k)
	}
	var args []*Term
	for _, x := range l.ts {
		if x.c.Cmp(big.NewInt(1)) == 0 {
			args = append(args, x.t)
		} else {
			args = append(args, app("*", SortInt, IntConst(x.c), x.t))
		}
	}
	if l.k.Sign() != 0 {
		args = append(args, IntConst(l.k))
	}
	var t *Term
	if len(args) == 1 {
		t = args[0]
	} else {
		t = app("+", SortInt, args...)
	}
	termMu.Lock()
	if t.lin == nil {
		t.lin = l
	}
	termMu.Unlock()
	return t
}

func IntAdd(a, b *Term) *Term { return linTermOf(linAddScaled(linOf(a), linOf(b), big.NewInt(1))) }
func IntSub(a, b *Term) *Term { return linTermOf(linSub(linOf(a), linOf(b))) }
func IntNeg(a *Term) *Term    { return IntSub(IntK(0), a) }
func IntMul(a, b *Term) *Term {
	if a.C != nil {
		return linTermOf(linAddScaled(&lin{k: big.NewInt(0)}, linOf(b), a.C))
	}
	if b.C != nil {
		return linTermOf(linAddScaled(&lin{k: big.NewInt(0)}, linOf(a), b.C))
	}
	if a.id > b.id {
		a, b = b, a
	}
	return app("*", SortInt, a, b)
}

// IntDivFloor / IntModFloor are SMT-LIB div/mod (floor for positive divisor).
func IntDivFloor(a, b *Term) *Term {
	if a.C != nil && b.C != nil && b.C.Sign() > 0 {
		q, _ := new(big.Int).DivMod(a.C, b.C, new(big.Int))
		return IntConst(q)
	}
	return app("div", SortInt, a, b)
}
func IntModFloor(a, b *Term) *Term {
	if a.C != nil && b.C != nil && b.C.Sign() > 0 {
		_, m := new(big.Int).DivMod(a.C, b.C, new(big.Int))
		return IntConst(m)
	}
	return app("mod", SortInt, a, b)
}

// IntQuo / IntRem implement Go's truncated division for a positive constant divisor or general.
func IntQuo(a, b *Term) *Term {
	if a.C != nil && b.C != nil && b.C.Sign() != 0 {
		return IntConst(new(big.Int).Quo(a.C, b.C))
	}
	if b.C != nil && b.C.Sign() > 0 {
		return Ite(IntLe(IntK(0), a), IntDivFloor(a, b), IntNeg(IntDivFloor(IntNeg(a), b)))
	}
	// general: sign-aware
	absA := Ite(IntLe(IntK(0), a), a, IntNeg(a))
	absB := Ite(IntLe(IntK(0), b), b, IntNeg(b))
	q := IntDivFloor(absA, absB)
	same := Eq(IntLe(IntK(0), a), IntLe(IntK(0), b))
	return Ite(same, q, IntNeg(q))
}
func IntRem(a, b *Term) *Term {
	if a.C != nil && b.C != nil && b.C.Sign() != 0 {
		return IntConst(new(big.Int).Rem(a.C, b.C))
	}
	if b.C != nil && b.C.Sign() > 0 {
		return Ite(IntLe(IntK(0), a), IntModFloor(a, b), IntNeg(IntModFloor(IntNeg(a), b)))
	}
	return IntSub(a, IntMul(b, IntQuo(a, b)))
}

func IntLe(a, b *Term) *Term {
	d := linSub(linOf(a), linOf(b))
	if d.isConst() {
		return BoolK(d.k.Sign() <= 0)
	}
	return app("<=", SortBool, a, b)
}
func IntLt(a, b *Term) *Term {
	d := linSub(linOf(a), linOf(b))
	if d.isConst() {
		return BoolK(d.k.Sign() < 0)
	}
	return app("<", SortBool, a, b)
}
func IntMin(a, b *Term) *Term { return Ite(IntLt(a, b), a, b) }

// ---- floating point ----

func FPConstBits(bits *big.Int, w int) *Term {
	eb, sb := 8, 24
	if w == 64 {
		eb, sb = 11, 53
	}
	return app(fmt.Sprintf("(_ to_fp %d %d)", eb, sb), FPSort(w), BVConst(bits, w))
}
func fpIdx(w int) (int, int) {
	if w == 64 {
		return 11, 53
	}
	return 8, 24
}

var RNE = intern("const", mkSort(&Sort{K: KBool + 100, S: "RoundingMode"}), "RNE", nil)
var RTZ = intern("const", RNE.Sort, "RTZ", nil)
var RTN = intern("const", RNE.Sort, "RTN", nil)
var RTP = intern("const", RNE.Sort, "RTP", nil)
var RNA = intern("const", RNE.Sort, "RNA", nil)

func FPBin(op string, a, b *Term) *Term  { return app(op, a.Sort, RNE, a, b) }
func FPCmp(op string, a, b *Term) *Term  { return app(op, SortBool, a, b) }
func FPNeg(a *Term) *Term                { return app("fp.neg", a.Sort, a) }
func FPFloor(a *Term) *Term              { return app("fp.roundToIntegral", a.Sort, RTN, a) }
func FPRoundTo(mode, a *Term) *Term     { return app("fp.roundToIntegral", a.Sort, mode, a) }
func FPIsNaN(a *Term) *Term              { return app("fp.isNaN", SortBool, a) }
func FPIsInf(a *Term) *Term              { return app("fp.isInfinite", SortBool, a) }
func FPFromBits(a *Term, w int) *Term    { eb, sb := fpIdx(w); return app(fmt.Sprintf("(_ to_fp %d %d)", eb, sb), FPSort(w), a) }
func FPToFP(a *Term, w int) *Term        { eb, sb := fpIdx(w); return app(fmt.Sprintf("(_ to_fp %d %d)", eb, sb), FPSort(w), RNE, a) }
func FPFromUBV(a *Term, w int) *Term     { eb, sb := fpIdx(w); return app(fmt.Sprintf("(_ to_fp_unsigned %d %d)", eb, sb), FPSort(w), RNE, a) }
func FPFromSBV(a *Term, w int) *Term     { eb, sb := fpIdx(w); return app(fmt.Sprintf("(_ to_fp %d %d)", eb, sb), FPSort(w), RNE, a) }
func FPToUBV(a *Term, w int) *Term       { return app(fmt.Sprintf("(_ fp.to_ubv %d)", w), BVSort(w), RTZ, a) }
func FPToSBV(a *Term, w int) *Term       { return app(fmt.Sprintf("(_ fp.to_sbv %d)", w), BVSort(w), RTZ, a) }
func FPToReal(a *Term) *Term             { return app("fp.to_real", mkSort(&Sort{K: KBool + 101, S: "Real"}), a) }

// ---- printing ----

func (t *Term) String() string {
	var b strings.Builder
	t.write(&b, nil)
	return b.String()
}

func (t *Term) atom(b *strings.Builder) bool {
	switch t.Op {
	case "var":
		b.WriteByte('|')
		b.WriteString(t.Name)
		b.WriteByte('|')
		return true
	case "const":
		switch t.Sort.K {
		case KBool:
			if t.C.Sign() != 0 {
				b.WriteString("true")
			} else {
				b.WriteString("false")
			}
		case KBV:
			fmt.Fprintf(b, "(_ bv%s %d)", t.C.String(), t.Sort.W)
		case KInt:
			if t.C.Sign() < 0 {
				fmt.Fprintf(b, "(- %s)", new(big.Int).Neg(t.C).String())
			} else {
				b.WriteString(t.C.String())
			}
		default:
			b.WriteString(t.Name)
		}
		return true
	}
	return false
}

// write prints t; nodes present in named are printed by reference.
func (t *Term) write(b *strings.Builder, named map[int]bool) {
	if t.atom(b) {
		return
	}
	if named != nil && named[t.id] {
		fmt.Fprintf(b, "t!%d", t.id)
		return
	}
	t.writeBody(b, named)
}

func (t *Term) writeBody(b *strings.Builder, named map[int]bool) {
	if t.Op == "constarr" {
		b.WriteString("((as const ")
		b.WriteString(t.Sort.S)
		b.WriteString(") ")
		t.Args[0].write(b, named)
		b.WriteString(")")
		return
	}
	b.WriteByte('(')
	if strings.HasPrefix(t.Op, "uf:") {
		b.WriteByte('|')
		b.WriteString(t.Op)
		b.WriteByte('|')
	} else {
		b.WriteString(t.Op)
	}
	for _, a := range t.Args {
		b.WriteByte(' ')
		a.write(b, named)
	}
	b.WriteByte(')')
}

// Script renders assertions as an SMT-LIB script body: declarations of all free variables, define-funs for
// shared sub-terms, and one assert per formula. known (may be nil) holds variable names already declared.
func Script(asserts []*Term, known map[string]bool, scoped bool) string {
	count := map[int]int{}
	var order []*Term
	var visit func(t *Term)
	visit = func(t *Term) {
		count[t.id]++
		if count[t.id] > 1 {
			return
		}
		for _, a := range t.Args {
			visit(a)
		}
		order = append(order, t)
	}
	for _, a := range asserts {
		visit(a)
	}
	var b strings.Builder
	named := map[int]bool{}
	ufSeen := map[string]bool{}
	for _, t := range order {
		if t.Op == "var" {
			if known == nil || !known[t.Name] {
				fmt.Fprintf(&b, "(declare-fun |%s| () %s)\n", t.Name, t.Sort.S)
				if known != nil {
					known[t.Name] = true
				}
			}
		} else if strings.HasPrefix(t.Op, "uf:") && !ufSeen[t.Op] {
			ufSeen[t.Op] = true
			if known == nil || !known[t.Op] {
				var as []string
				for _, a := range t.Args {
					as = append(as, a.Sort.S)
				}
				fmt.Fprintf(&b, "(declare-fun |%s| (%s) %s)\n", t.Op, strings.Join(as, " "), t.Sort.S)
				if known != nil {
					known[t.Op] = true
				}
			}
		}
	}
	if scoped {
		b.WriteString("(push 1)\n")
	}
	for _, t := range order {
		if t.Op == "var" || t.Op == "const" {
			continue
		}
		if count[t.id] > 1 && len(t.Args) > 0 {
			fmt.Fprintf(&b, "(define-fun t!%d () %s ", t.id, t.Sort.S)
			t.writeBody(&b, named)
			b.WriteString(")\n")
			named[t.id] = true
		}
	}
	for _, a := range asserts {
		if a.IsTrue() {
			continue
		}
		b.WriteString("(assert ")
		a.write(&b, named)
		b.WriteString(")\n")
	}
	return b.String()
}

// subTerms calls f on every distinct sub-term of the given roots.
func subTerms(roots []*Term, f func(*Term)) {
	seen := map[int]bool{}
	var visit func(t *Term)
	visit = func(t *Term) {
		if seen[t.id] {
			return
		}
		seen[t.id] = true
		for _, a := range t.Args {
			visit(a)
		}
		f(t)
	}
	for _, r := range roots {
		visit(r)
	}
}

func termSize(roots []*Term) int {
	n := 0
	subTerms(roots, func(*Term) { n++ })
	return n
}

// UF builds an application of an uninterpreted function.
func UF(name string, s *Sort, args ...*Term) *Term { return app("uf:"+name, s, args...) }
