package main

import (
	"os"
	"fmt"
	"go/types"
	"math"
	"strings"

	"golang.org/x/tools/go/ssa"
)

func mathFloat32bits(f float32) uint32 { return math.Float32bits(f) }
func mathFloat64bits(f float64) uint64 { return math.Float64bits(f) }

const rtcpPath = "github.com/pion/rtcp"

func pkgPathOf(fn *ssa.Function) string {
	if fn.Pkg != nil {
		return fn.Pkg.Pkg.Path()
	}
	if fn.Object() != nil && fn.Object().Pkg() != nil {
		return fn.Object().Pkg().Path()
	}
	// synthetic wrappers: look at the receiver / parent
	if fn.Parent() != nil {
		return pkgPathOf(fn.Parent())
	}
	if fn.Signature.Recv() != nil {
		t := fn.Signature.Recv().Type()
		if p, ok := t.(*types.Pointer); ok {
			t = p.Elem()
		}
		if n, ok := t.(*types.Named); ok && n.Obj().Pkg() != nil {
			return n.Obj().Pkg().Path()
		}
	}
	return ""
}

func (u *Unit) call(st *State, fr *Frame, in *ssa.Call) ([]Outcome, bool) {
	c := in.Common()
	var args []Value
	for _, a := range c.Args {
		args = append(args, u.val(st, fr, a))
	}
	if bi, ok := c.Value.(*ssa.Builtin); ok {
		return u.builtin(st, fr, in, bi, args)
	}
	if c.IsInvoke() {
		recv := u.val(st, fr, c.Value)
		return u.invoke(st, fr, in, recv, c.Method, args)
	}
	if fn := c.StaticCallee(); fn != nil {
		if u.initMode && fn.Name() == "init" && fn.Pkg != u.eng.ssaPkg {
			return []Outcome{{st, nil}}, true // initialisers of imported packages: not our globals
		}
		var binds []Value
		if mc, ok := c.Value.(*ssa.MakeClosure); ok {
			for _, b := range mc.Bindings {
				binds = append(binds, u.val(st, fr, b))
			}
		}
		return u.callStatic(st, fr, in, fn, args, binds)
	}
	// call through a function value
	fv, ok := u.val(st, fr, c.Value).(FuncV)
	if !ok {
		u.unsupported("dynamic call through %T", u.val(st, fr, c.Value))
		return nil, false
	}
	if fv.Fn != nil {
		return u.callStatic(st, fr, in, fv.Fn, args, fv.Binds)
	}
	if fv.Sym != nil {
		// unknown callback: arbitrary result, recorded in the ghost trace; assumed not to touch program state (A9)
		var ret Value
		rs := fv.Sym.Sig.Results()
		switch rs.Len() {
		case 0:
		case 1:
			ret = u.havoc(st, rs.At(0).Type(), fv.Sym.Name+".ret")
		default:
			tv := TupleV{}
			for i := 0; i < rs.Len(); i++ {
				tv = append(tv, u.havoc(st, rs.At(i).Type(), fv.Sym.Name+".ret"))
			}
			ret = tv
		}
		st.trace = append(st.trace, CallRec{fv.Sym, args, ret})
		// symbolic trace (one scalar argument, boolean or no result)
		if len(args) == 1 {
			if av, ok := args[0].(IntV); ok {
				if st.tlen == nil {
					st.tlen, st.targ, st.tret = IntK(0), zeroMem{av.T.Sort}, zeroMem{SortBool}
				}
				if st.targ == nil {
					st.targ, st.tret = baseMem{Fresh("cb.arg", ArrSort(SortInt, av.T.Sort))}, baseMem{Fresh("cb.ret", ArrSort(SortInt, SortBool))}
				}
				if st.targ.sort() == av.T.Sort {
					st.targ = storeMem{st.targ, st.tlen, av.T}
					if rb, ok := ret.(BoolV); ok {
						st.tret = storeMem{st.tret, st.tlen, rb.T}
					}
					st.tlen = IntAdd(st.tlen, IntK(1))
				}
			}
		}
		return []Outcome{{st, ret}}, true
	}
	u.require(st, fr, False, "nil-func-call", in)
	return nil, true
}

func (u *Unit) callStatic(st *State, fr *Frame, in *ssa.Call, fn *ssa.Function, args, binds []Value) ([]Outcome, bool) {
	if outs, ok, handled := u.intrinsic(st, fr, in, fn, args); handled {
		return outs, ok
	}
	key := fnKey(fn)
	if ct := u.eng.contracts[key]; ct != nil && ct.Rec {
		defer func() {
			if r := recover(); r != nil {
				if sp, ok := r.(specPanic); ok {
					u.unsupported("%s", sp.msg)
					return
				}
				panic(r)
			}
		}()
		return []Outcome{{st, u.recCall(st, fn, args)}}, true
	}
	if ct := u.eng.contracts[key]; ct != nil && u.specMode == 0 && !u.bounded && !ct.Inline {
		return u.callByContract(st, fr, in, fn, ct, args)
	}
	if fn == u.fn && u.specMode == 0 {
		u.unsupported("recursive call of %s", key)
		return nil, false
	}
	pp := pkgPathOf(fn)
	if len(fn.Blocks) == 0 || (pp != rtcpPath && pp != "encoding/binary" && pp != "bytes" && pp != "math/bits") {
		u.unsupported("external %s", fn.String())
		return nil, false
	}
	site := fr.site
	if site == "" && pp != rtcpPath && in != nil {
		site = u.where(fr, in)
	}
	if pp == rtcpPath && fn.Synthetic == "" && u.specMode == 0 {
		u.inlined[key] = true
	}
	outs := u.callFn(st, fn, args, binds, fr.depth+1, site, fr)
	return outs, true
}

func (u *Unit) invoke(st *State, fr *Frame, in *ssa.Call, recv Value, m *types.Func, args []Value) ([]Outcome, bool) {
	switch rv := recv.(type) {
	case IfaceV:
		if rv.Typ == nil {
			u.require(st, fr, False, "nil-deref", in)
			return nil, true
		}
		fn := u.eng.prog.LookupMethod(rv.Typ, m.Pkg(), m.Name())
		if fn == nil {
			u.unsupported("no method %s on %s", m.Name(), rv.Typ)
			return nil, false
		}
		return u.callMethod(st, fr, in, fn, rv.V, rv.Typ, args)
	case SymIface:
		if !u.require(st, fr, Not(Eq(rv.Tag, IntK(0))), "nil-deref", in) {
			return nil, true
		}
		var outs []Outcome
		impls := u.eng.implementers(rv.Typ)
		var known *Term = False
		for _, T := range impls {
			c := Eq(rv.Tag, IntK(int64(u.eng.typeID(T))))
			known = Or(known, c)
			kt := u.knownTag(st, rv.Tag, rv.Typ)
			if kt != nil && kt != c {
				continue
			}
			s2 := st.clone()
			s2.assume(c)
			if kt == nil && !u.feasible(s2) {
				continue
			}
			fn := u.eng.prog.LookupMethod(T, m.Pkg(), m.Name())
			if fn == nil {
				u.unsupported("no method %s on %s", m.Name(), T)
				return nil, false
			}
			self := u.readElem(s2, rv.R, rv.Idx, rv.Path+"@"+relType(T), T)
			o, ok := u.callMethod(s2, fr.clone(), in, fn, self, T, args)
			if !ok {
				return nil, false
			}
			outs = append(outs, o...)
		}
		// closed world: the dynamic type is one of the package's implementers (assumption A-closed-world)
		st.assume(known)
		return outs, true
	case ErrV:
		if m.Name() == "Error" {
			return []Outcome{{st, u.havoc(st, types.Typ[types.String], "errmsg")}}, true
		}
	}
	u.unsupported("invoke %s on %T", m.Name(), recv)
	return nil, false
}

// callMethod calls fn (a method of dynamic type T) with receiver value self.
func (u *Unit) callMethod(st *State, fr *Frame, in *ssa.Call, fn *ssa.Function, self Value, T types.Type, args []Value) ([]Outcome, bool) {
	all := append([]Value{self}, args...)
	// wrapper methods (*T).M for value-receiver M are synthetic: resolve to the declared method when possible
	if fn.Synthetic != "" {
		if pt, ok := T.(*types.Pointer); ok {
			if real := u.eng.prog.LookupMethod(pt.Elem(), fn.Object().Pkg(), fn.Name()); real != nil && real.Synthetic == "" {
				v, ok := u.load(st, fr, self, in)
				if !ok {
					return nil, true
				}
				all[0] = v
				fn = real
			}
		}
	}
	return u.callStatic(st, fr, in, fn, all, nil)
}

// ---------- builtins ----------

func (u *Unit) builtin(st *State, fr *Frame, in *ssa.Call, bi *ssa.Builtin, args []Value) ([]Outcome, bool) {
	one := func(v Value) ([]Outcome, bool) { return []Outcome{{st, v}}, true }
	switch bi.Name() {
	case "len":
		switch s := args[0].(type) {
		case SliceV:
			return one(IntV{s.Len, true})
		case StringV:
			return one(IntV{s.Len, true})
		case ArrayV:
			return one(IntV{IntK(s.N), true})
		case MapV:
			return one(IntV{IntK(int64(len(s.Keys))), true})
		}
	case "cap":
		switch s := args[0].(type) {
		case SliceV:
			return one(IntV{s.Cap, true})
		case ArrayV:
			return one(IntV{IntK(s.N), true})
		}
	case "ssa:deferstack":
		return one(nil)
	case "copy":
		d := args[0].(SliceV)
		var sR *Region
		var sOff, sLen *Term
		switch s := args[1].(type) {
		case SliceV:
			sR, sOff, sLen = s.R, s.Off, s.Len
		case StringV:
			sR, sOff, sLen = s.R, s.Off, s.Len
		}
		n := IntMin(d.Len, sLen)
		if n.C == nil && u.specMode == 0 {
			if u.inc.Valid(st.hyps(), IntLe(sLen, d.Len)) {
				n = sLen
			} else if u.inc.Valid(st.hyps(), IntLe(d.Len, sLen)) {
				n = d.Len
			}
			n = u.impliedConst(st, n)
		}
		if d.R == nil || sR == nil {
			return one(IntV{n, true})
		}
		if !u.writable(d.R) && u.specMode == 0 {
			u.oblige(st, fmt.Sprintf("%s#frame:%s", fnKey(u.fn), u.where(fr, in)), "frame", []string{"C18"}, Eq(n, IntK(0)), "")
		}
		es := scalarSort(d.R.Elem)
		if es == nil || d.R.concrete {
			u.unsupported("copy of non-scalar or concrete-list slices")
			return nil, false
		}
		var src Mem
		if sR.concrete {
			rs := u.rstate(st, sR)
			src = zeroMem{es}
			for i, e := range rs.elems {
				src = storeMem{src, IntK(int64(i)), e.(IntV).T}
			}
		} else {
			src = u.compMem(st, sR, "", es)
		}
		u.setComp(st, d.R, "", copyMem{u.compMem(st, d.R, "", es), d.Off, n, src, sOff})
		return one(IntV{n, true})
	case "append":
		et := in.Type().Underlying().(*types.Slice).Elem()
		return u.doAppend(st, fr, in, et, args[0].(SliceV), args[1])
	case "min", "max":
		a, b := args[0].(IntV), args[1].(IntV)
		lt, ok := u.intBin(st, fr, tokenLSS, a, b, in)
		if !ok {
			return nil, false
		}
		c := lt.(BoolV).T
		if bi.Name() == "max" {
			c = Not(c)
		}
		return one(IntV{Ite(c, a.T, b.T), a.Signed})
	}
	u.unsupported("builtin %s", bi.Name())
	return nil, false
}

// impliedConst replaces t by a constant when the path condition forces a single small value.
func (u *Unit) impliedConst(st *State, t *Term) *Term {
	if t.C != nil || !t.IsInt() {
		return t
	}
	h := st.hyps()
	if v, ok := u.inc.ModelInt(h, t); ok && v >= 0 && v <= 64 {
		if u.inc.Valid(h, Eq(t, IntK(v))) {
			return IntK(v)
		}
	}
	return t
}

// doAppend implements append(s, add...). Two cases as in Go: in place when the capacity suffices (the
// backing array is written — visible to the frame check), otherwise a fresh region with the old prefix.
func (u *Unit) doAppend(st *State, fr *Frame, in *ssa.Call, et types.Type, s SliceV, addV Value) ([]Outcome, bool) {
	var aR *Region
	var aOff, aLen *Term
	switch a := addV.(type) {
	case SliceV:
		aR, aOff, aLen = a.R, a.Off, a.Len
	case StringV:
		aR, aOff, aLen = a.R, a.Off, a.Len
	default:
		u.unsupported("append of %T", addV)
		return nil, false
	}
	if aLen.C != nil && aLen.C.Sign() == 0 {
		return []Outcome{{st, s}}, true
	}
	nl := IntAdd(s.Len, aLen)
	if os.Getenv("GOVC_APPEND") != "" {
		fmt.Fprintf(os.Stderr, "  [append] %s: R=%v fresh=%v concrete=%v input=%v len=%v cap=%v flat=%v\n", u.where(fr, in), s.R != nil, s.R != nil && s.R.fresh, s.R != nil && s.R.concrete, s.R != nil && s.R.input, s.Len, s.Cap, flatElem(et))
	}
	if !u.rangeOK(st, fr, nl, in) {
		return nil, false
	}
	esz := typeSize(et)

	// concrete-list mode (elements with references, constant lengths)
	if (s.R == nil || s.R.concrete) && !flatElem(et) && s.Len.C != nil && aLen.C != nil && (aR == nil || aR.concrete) {
		n, k := int(s.Len.C.Int64()), int(aLen.C.Int64())
		if fits := IntLe(nl, s.Cap); u.specMode == 0 && !(s.R != nil && s.R.fresh) && !fits.IsFalse() {
			// the list is (a re-slice of) an array this activation did not allocate — e.g. (*c)[:0] of the caller's
			// []Packet: an append that fits its capacity writes into that array
			u.oblige(st, fmt.Sprintf("%s#frame:%s", fnKey(u.fn), u.where(fr, in)), "frame", []string{"C18"}, Not(fits), "")
		}
		r := u.newRegion(et, "append")
		r.fresh, r.concrete = true, true
		el := make([]Value, 0, n+k)
		if s.R != nil {
			off := int(s.Off.C.Int64())
			el = append(el, u.rstate(st, s.R).elems[off:off+n]...)
		}
		off := int(aOff.C.Int64())
		el = append(el, u.rstate(st, aR).elems[off:off+k]...)
		st.rgn[r] = &RegionState{elems: el}
		st.alloc = IntAdd(st.alloc, IntK(int64(k)*esz))
		return []Outcome{{st, SliceV{r, IntK(0), IntK(int64(n + k)), IntK(int64(n + k))}}}, true
	}

	// A slice whose backing array was allocated by this activation: modelled as growth in place (a single
	// outcome; reallocation is unobservable unless two slices of the same fresh array are both extended
	// beyond its capacity — documented deviation, see DESIGN.md)
	if s.R != nil && s.R.fresh && !s.R.concrete {
		st.alloc = IntAdd(st.alloc, IntMul(aLen, IntK(esz)))
		if !u.appendWrite(st, s.R, IntAdd(s.Off, s.Len), et, aR, aOff, aLen) {
			return nil, false
		}
		ncap := s.Cap
		if !IntLe(nl, s.Cap).IsTrue() {
			ncap = Fresh("appendcap", SortInt)
			st.assume(And(IntLe(nl, ncap), IntLe(s.Cap, ncap), IntLe(ncap, IntK(1<<41))))
		}
		return []Outcome{{st, SliceV{s.R, s.Off, nl, ncap}}}, true
	}
	var outs []Outcome
	fits := IntLe(nl, s.Cap)
	if s.R == nil && u.specMode == 0 && !fits.IsFalse() {
		// a slice whose backing array is not modelled (elements with references, e.g. the caller's []Packet): an
		// append that fits its capacity would write into that array, which this activation does not own
		u.oblige(st, fmt.Sprintf("%s#frame:%s", fnKey(u.fn), u.where(fr, in)), "frame", []string{"C18"}, Not(fits), "")
	}
	// case 1: in place
	if s.R != nil && !fits.IsFalse() {
		s1 := st
		if !fits.IsTrue() {
			s1 = st.clone()
			s1.assume(fits)
		}
		if fits.IsTrue() || u.feasible(s1) {
			ok := true
			if !u.writable(s.R) && u.specMode == 0 {
				u.frameViolation(s1, fr, in)
			}
			if ok {
				s1.alloc = IntAdd(s1.alloc, IntMul(aLen, IntK(esz)))
				if u.appendWrite(s1, s.R, IntAdd(s.Off, s.Len), et, aR, aOff, aLen) {
					outs = append(outs, Outcome{s1, SliceV{s.R, s.Off, nl, s.Cap}})
				} else {
					return nil, false
				}
			}
		}
		if fits.IsTrue() {
			return outs, true
		}
	}
	// case 2: reallocate
	s2 := st.clone()
	if s.R != nil {
		s2.assume(Not(fits))
		if !u.feasible(s2) {
			return outs, true
		}
	}
	r := u.newRegion(et, "append")
	r.fresh = true
	r.zero = true
	if s.R != nil {
		r.lineage = s.R.lineage
		if r.lineage == 0 {
			r.lineage = s.R.id
		}
	}
	ncap := Fresh("appendcap", SortInt)
	s2.assume(And(IntLe(nl, ncap), IntLe(ncap, IntK(1<<41))))
	s2.alloc = IntAdd(s2.alloc, IntMul(aLen, IntK(esz))) // amortised: payload bytes per appended element (A3)
	if s.R != nil {
		if s.R.concrete {
			u.unsupported("append reallocating a concrete-list region symbolically")
			return nil, false
		}
		// copy the old prefix: every component of the old region becomes the base of the new one, shifted by Off
		if !u.copyPrefix(s2, r, s.R, s.Off, s.Len, et) {
			return nil, false
		}
	}
	if !u.appendWrite(s2, r, s.Len, et, aR, aOff, aLen) {
		return nil, false
	}
	outs = append(outs, Outcome{s2, SliceV{r, IntK(0), nl, ncap}})
	return outs, true
}

// copyPrefix makes dst[0:n] equal src[off:off+n] for all components.
func (u *Unit) copyPrefix(st *State, dst, src *Region, off, n *Term, et types.Type) bool {
	if isByteType(et) || scalarSort(et) != nil {
		s := scalarSort(et)
		u.appending = true
		u.setComp(st, dst, "", copyMem{zeroMem{s}, IntK(0), n, u.compMem(st, src, "", s), off})
		u.appending = false
		return true
	}
	if off.C != nil && off.C.Sign() == 0 {
		// same indices: the new region starts as a view of the old one's components (values are copied;
		// later writes go to the new region's own log)
		rs := u.rstate(st, src)
		nc := map[string]Mem{}
		for _, lf := range leafKeys(et, "") {
			nc[lf.key] = u.compMem(st, src, lf.key, lf.sort)
		}
		st.rgn[dst] = &RegionState{comp: nc, ver: rs.ver}
		dst.zero = false
		// components not enumerated by leafKeys (deeper nesting) are resolved lazily through aliasOf
		dst.parent, dst.pidx, dst.ppath = nil, nil, ""
		u.aliasBase[dst] = src
		return true
	}
	u.unsupported("append reallocation of a struct slice with non-zero offset")
	return false
}

// appendWrite stores the addend's elements at dst[at...].
func (u *Unit) appendWrite(st *State, dst *Region, at *Term, et types.Type, aR *Region, aOff, aLen *Term) bool {
	u.appending = true
	defer func() { u.appending = false }()
	if aLen.C != nil && aLen.C.Int64() <= 64 && (aR == nil || !isByteType(et) || aR.concrete || aLen.C.Int64() <= 8) {
		for j := int64(0); j < aLen.C.Int64(); j++ {
			v, ok := u.readRegion(st, aR, IntAdd(aOff, IntK(j)), "", et)
			if !ok {
				return false
			}
			if dst.concrete {
				u.unsupported("append into concrete-list region in place")
				return false
			}
			if !u.writeElem(st, dst, IntAdd(at, IntK(j)), "", et, v) {
				return false
			}
		}
		return true
	}
	if s := scalarSort(et); s != nil && aR != nil && !aR.concrete && !dst.concrete {
		u.setComp(st, dst, "", copyMem{u.compMem(st, dst, "", s), at, aLen, u.compMem(st, aR, "", s), aOff})
		return true
	}
	u.unsupported("append with symbolic addend length of non-scalar elements")
	return false
}

// ---------- intrinsics for external functions ----------

func (u *Unit) intrinsic(st *State, fr *Frame, in *ssa.Call, fn *ssa.Function, args []Value) ([]Outcome, bool, bool) {
	one := func(v Value) ([]Outcome, bool, bool) { return []Outcome{{st, v}}, true, true }
	name := fn.String()
	if fn.Name() == "byteAt" && pkgPathOf(fn) == rtcpPath {
		// ghost reader: total (arbitrary outside the slice), no branching
		s := args[0].(SliceV)
		it := toInt(args[1].(IntV))
		if s.R == nil {
			return one(IntV{Fresh("oob", BVSort(8)), false})
		}
		u.specMode++
		v, ok := u.readRegion(st, s.R, IntAdd(s.Off, it), "", types.Typ[types.Uint8])
		u.specMode--
		if !ok {
			return nil, false, true
		}
		return one(v)
	}
	switch name {
	case "math.Floor":
		a := args[0].(FloatV)
		return one(FloatV{FPFloor(a.T), a.Bits})
	case "math.Ceil": // toward +Inf
		a := args[0].(FloatV)
		return one(FloatV{FPRoundTo(RTP, a.T), a.Bits})
	case "math.Trunc": // toward zero
		a := args[0].(FloatV)
		return one(FloatV{FPRoundTo(RTZ, a.T), a.Bits})
	case "math.Round": // nearest, halves away from zero
		a := args[0].(FloatV)
		return one(FloatV{FPRoundTo(RNA, a.T), a.Bits})
	case "math.RoundToEven":
		a := args[0].(FloatV)
		return one(FloatV{FPRoundTo(RNE, a.T), a.Bits})
	case "math.Float32frombits":
		return one(FloatV{FPFromBits(args[0].(IntV).T, 32), 32})
	case "math.Float64frombits":
		return one(FloatV{FPFromBits(args[0].(IntV).T, 64), 64})
	case "bytes.Equal":
		a, b := args[0].(SliceV), args[1].(SliceV)
		return one(BoolV{u.bytesEqual(st, a.R, a.Off, a.Len, b.R, b.Off, b.Len)})
	case "fmt.Sprintf", "fmt.Sprint", "fmt.Sprintln", "strings.ReplaceAll", "strings.TrimSuffix", "strings.Repeat", "strings.Join", "strconv.Itoa", "strings.TrimSpace", "strings.ToLower", "strings.ToUpper":
		u.eng.noteAssumed(name)
		// %v of a value with a String method calls it: take the stricter reading and execute those calls
		if strings.HasPrefix(name, "fmt.") {
			if ok := u.fmtStringers(st, fr, in, args); !ok {
				return nil, false, true
			}
		}
		return one(u.havoc(st, types.Typ[types.String], "fmtstr"))
	case "fmt.Errorf", "errors.New":
		u.eng.noteAssumed(name)
		return one(ErrV{Nil: False, ID: Fresh("err", SortInt)})
	case "errors.Is":
		u.eng.noteAssumed(name)
		a, aok := args[0].(ErrV)
		b, bok := args[1].(ErrV)
		if aok && bok {
			return one(BoolV{And(Not(a.Nil), Not(b.Nil), Eq(a.ID, b.ID))})
		}
	}
	if strings.HasPrefix(name, "(*strings.Builder).") {
		u.eng.noteAssumed("strings.Builder")
		rs := fn.Signature.Results()
		switch rs.Len() {
		case 0:
			return one(nil)
		case 1:
			return one(u.havoc(st, rs.At(0).Type(), "sb"))
		default:
			tv := TupleV{}
			for i := 0; i < rs.Len(); i++ {
				if isErrorType(rs.At(i).Type()) {
					tv = append(tv, ErrV{Nil: True, ID: IntK(0)})
				} else {
					tv = append(tv, u.havoc(st, rs.At(i).Type(), "sb"))
				}
			}
			return one(tv)
		}
	}
	// package-level functions of a few pure standard-library packages, over scalars and strings only: total, no
	// effects, arbitrary result (assumption A6, listed per run under assumed_externals)
	if fn.Signature.Recv() == nil && len(fn.Blocks) >= 0 {
		switch pkgPathOf(fn) {
		case "strings", "strconv", "unicode", "unicode/utf8", "unicode/utf16", "math":
			scalarOnly := true
			for i := 0; i < fn.Signature.Params().Len(); i++ {
				switch t := fn.Signature.Params().At(i).Type().Underlying().(type) {
				case *types.Basic:
				case *types.Slice:
					if !isByteType(t.Elem()) {
						scalarOnly = false
					}
				default:
					scalarOnly = false
				}
			}
			rs := fn.Signature.Results()
			if scalarOnly && rs.Len() >= 1 {
				u.eng.noteAssumed(name)
				if rs.Len() == 1 {
					return one(u.havoc(st, rs.At(0).Type(), fn.Name()))
				}
				tv := TupleV{}
				for i := 0; i < rs.Len(); i++ {
					if isErrorType(rs.At(i).Type()) {
						tv = append(tv, u.havoc(st, rs.At(i).Type(), fn.Name()+".err"))
					} else {
						tv = append(tv, u.havoc(st, rs.At(i).Type(), fn.Name()))
					}
				}
				return one(tv)
			}
		}
	}
	return nil, false, false
}

// fmtStringers: arguments of fmt calls that implement fmt.Stringer get their String method called.
func (u *Unit) fmtStringers(st *State, fr *Frame, in *ssa.Call, args []Value) bool {
	if len(args) == 0 {
		return true
	}
	last, ok := args[len(args)-1].(SliceV)
	if !ok || last.R == nil || !last.R.concrete {
		return true
	}
	for _, e := range u.rstate(st, last.R).elems {
		iv, ok := e.(IfaceV)
		if !ok || iv.Typ == nil {
			continue
		}
		ms := u.eng.prog.MethodSets.MethodSet(iv.Typ)
		sel := ms.Lookup(nil, "String")
		if sel == nil {
			continue
		}
		fn := u.eng.prog.MethodValue(sel)
		if fn == nil || pkgPathOf(fn) != rtcpPath {
			continue
		}
		outs, ok := u.callMethod(st, fr, in, fn, iv.V, iv.Typ, nil)
		if !ok {
			return false
		}
		if len(outs) == 0 {
			return false
		}
		// String methods have no effects; continue in the first outcome's state constraints only when single
		if len(outs) == 1 {
			*st = *outs[0].st
		}
	}
	return true
}

// ---------- modular call ----------

func (u *Unit) callByContract(st *State, fr *Frame, in *ssa.Call, fn *ssa.Function, ct *Contract, args []Value) ([]Outcome, bool) {
	key := fnKey(fn)
	if ct.Broken != "" {
		u.unsupported("callee contract %s does not resolve against the current source", key)
		return nil, false
	}
	if u.usedCallee[key] == nil {
		u.usedCallee[key] = map[string]bool{}
	}
	site := ""
	if in != nil {
		site = u.where(fr, in)
	}
	entry := st.clone()
	st.trace = append(st.trace, CallRec{nil, args, nil}) // ghost call trace (see traceBytes)
	// requires
	for _, cl := range ct.Requires {
		if !cl.visible(u.prop) || cl.Assumed {
			continue
		}
		env := u.paramEnv(st, fn, args, entry)
		g := env.formula(cl, true)
		name := fmt.Sprintf("%s#call-pre:%s@%s", fnKey(u.fn), key+"."+cl.Label, site)
		u.oblige(st, name, "pre", u.invTags(cl), g, cl.Text)
		st.assume(g)
	}
	// havoc the modifies set
	for _, mi := range ct.ModifiesIdx {
		marg := args[mi]
		mtype := fn.Params[mi].Type()
		if iv, ok := marg.(IfaceV); ok && iv.Typ != nil { // interface holding a pointer: the pointee is modified
			if _, isPtr := iv.Typ.Underlying().(*types.Pointer); isPtr {
				marg, mtype = iv.V, iv.Typ
			}
		}
		switch p := marg.(type) {
		case PtrV:
			if p.Obj == nil {
				u.require(st, fr, False, "nil-deref", in)
				return nil, true
			}
			t := mtype.Underlying().(*types.Pointer).Elem()
			if !p.Obj.fresh && !u.modRecv[p.Obj] {
				u.frameViolation(st, fr, in)
			}
			oldv := getPath(st.objs[p.Obj], p.Path)
			nv := u.havoc(st, t, fn.Name()+".mod")
			markFresh(u, st, nv) // what the callee stores into *p it allocated itself or got from its arguments
			nv = u.applyKeeps(st, ct, ct.ParamNames[mi], t, oldv, nv)
			st.objs[p.Obj] = setPath(st.objs[p.Obj], p.Path, nv)
		case ElemPtr:
			if p.Nil != nil && !u.require(st, fr, Not(p.Nil), "nil-deref", in) {
				return nil, true
			}
			if !u.writable(p.R) && u.specMode == 0 {
				u.frameViolation(st, fr, in)
			}
			if p.R.concrete || p.R.parent != nil {
				u.unsupported("contract call modifying an element of a concrete or nested region")
				return nil, false
			}
			nv := u.havoc(st, p.Typ, fn.Name()+".mod")
			markFresh(u, st, nv)
			if !u.writeElem(st, p.R, p.Idx, p.Path, p.Typ, nv) {
				return nil, false
			}
		case SliceV:
			if p.R != nil {
				if !u.writable(p.R) && u.specMode == 0 {
					u.oblige(st, fmt.Sprintf("%s#frame:%s", fnKey(u.fn), u.where(fr, in)), "frame", []string{"C18"}, Eq(p.Len, IntK(0)), "")
				}
				u.havocRegion(st, p.R)
			}
		}
	}
	// writes param.field: the callee may overwrite the elements of that slice (as it was before the call)
	for _, w := range ct.Writes {
		parts := strings.SplitN(w, ".", 2)
		for i, pn := range ct.ParamNames {
			if pn != parts[0] || len(parts) != 2 {
				continue
			}
			pv, ok := args[i].(PtrV)
			if !ok || pv.Obj == nil {
				continue
			}
			stt, ok := fn.Params[i].Type().Underlying().(*types.Pointer).Elem().Underlying().(*types.Struct)
			if !ok {
				continue
			}
			for fi := 0; fi < stt.NumFields(); fi++ {
				if stt.Field(fi).Name() != parts[1] {
					continue
				}
				if sl, ok := getPath(entry.objs[pv.Obj], append(append([]int(nil), pv.Path...), fi)).(SliceV); ok && sl.R != nil {
					if !u.writable(sl.R) && u.specMode == 0 {
						u.oblige(st, fmt.Sprintf("%s#frame:%s", fnKey(u.fn), u.where(fr, in)), "frame", []string{"C18"}, Eq(sl.Len, IntK(0)), "")
					}
					u.havocRange(st, sl.R, sl.Off, sl.Len)
				}
			}
		}
	}
	// a callee that takes a function value may call it: the callback trace grows
	var collectors []collector
	takesFunc := false
	for i, a := range args {
		if fv, ok := a.(FuncV); ok {
			takesFunc = true
			if fv.Fn != nil {
				if c, ok := u.collectorClosure(st, fv); ok {
					collectors = append(collectors, c)
				} else {
					u.unsupported("contract call of %s with a known closure argument %d whose effects are not summarised", key, i)
					return nil, false
				}
			}
		}
	}
	var oldTlen *Term
	if takesFunc {
		if st.tlen == nil {
			st.tlen = IntK(0)
		}
		oldTlen = st.tlen
		oldArg, oldRet := st.targ, st.tret
		st.tlen = Fresh("cb.len", SortInt)
		st.assume(IntLe(oldTlen, st.tlen))
		asort := BVSort(16)
		if oldArg != nil {
			asort = oldArg.sort()
		} else if len(collectors) > 0 {
			asort = collectors[0].elemSort
		}
		st.targ = baseMem{Fresh("cb.arg", ArrSort(SortInt, asort))}
		st.tret = baseMem{Fresh("cb.ret", ArrSort(SortInt, SortBool))}
		if oldArg != nil {
			na, nr, ol := st.targ, st.tret, oldTlen
			st.qh = append(st.qh, &QHyp{text: "callback trace prefix", n: 1, sorts: []*Sort{SortInt}, inst: func(ks []*Term) *Term {
				k := ks[0]
				return Implies(And(IntLe(IntK(0), k), IntLt(k, ol)), And(Eq(na.read(k), oldArg.read(k)), Eq(nr.read(k), oldRet.read(k))))
			}})
		}
	}
	var ret Value
	rs := fn.Signature.Results()
	switch rs.Len() {
	case 0:
	case 1:
		ret = u.havoc(st, rs.At(0).Type(), fn.Name()+".ret")
	default:
		tv := TupleV{}
		for i := 0; i < rs.Len(); i++ {
			tv = append(tv, u.havoc(st, rs.At(i).Type(), fmt.Sprintf("%s.ret%d", fn.Name(), i)))
		}
		ret = tv
	}
	// effect summary of a collecting closure: it appended the argument of every call to its captured slice and
	// returned true each time
	for _, c := range collectors {
		delta := IntSub(st.tlen, oldTlen)
		old := st.objs[c.cell].(SliceV)
		r := u.newRegion(old.R.Elem, "collected")
		if old.R == nil {
			u.unsupported("collector closure over a nil slice")
			return nil, false
		}
		r.fresh, r.zero = true, true
		es := c.elemSort
		u.appending = true
		u.setComp(st, r, "", copyMem{copyMem{zeroMem{es}, IntK(0), old.Len, u.compMem(st, old.R, "", es), old.Off}, old.Len, delta, st.targ, oldTlen})
		u.appending = false
		nl := IntAdd(old.Len, delta)
		ncap := Fresh("appendcap", SortInt)
		st.assume(IntLe(nl, ncap))
		st.objs[c.cell] = SliceV{r, IntK(0), nl, ncap}
		st.alloc = IntAdd(st.alloc, IntMul(delta, IntK(typeSize(old.R.Elem))))
		nr, ol, nlen := st.tret, oldTlen, st.tlen
		st.addInst(IntSub(st.tlen, IntK(1)))
		st.addInst(oldTlen)
		st.qh = append(st.qh, &QHyp{text: "collector returns true", n: 1, sorts: []*Sort{SortInt}, inst: func(ks []*Term) *Term {
			k := ks[0]
			return Implies(And(IntLe(ol, k), IntLt(k, nlen)), nr.read(k))
		}})
	}
	if ct.FreshRes {
		markFresh(u, st, ret)
	} else {
		markForeign(ret) // may alias the callee's inputs: not writable by the caller without a frame violation
	}
	// functional postcondition `result == E` on a single scalar result: substitute instead of equate
	if rs.Len() == 1 {
		for _, cl := range ct.Ensures {
			if !cl.visible(u.prop) || len(cl.Binders) > 0 {
				continue
			}
			if rhs := cl.resultDef(ct); rhs != nil {
				env := u.paramEnv(st, fn, args, entry)
				if v := env.eval(cl, rhs); v != nil {
					ret = v
				}
				break
			}
		}
	}
	// `sameSlice(T, E)` (possibly under a guard): the target *is* E's array at E's offset and length. A guarded
	// alias forks the outcome: one where the guard holds and the target aliases E, one where the guard fails.
	type variant struct {
		st  *State
		ret Value
	}
	variants := []variant{{st, ret}}
	for _, cl := range ct.Ensures {
		if !cl.visible(u.prop) {
			continue
		}
		for _, ra := range cl.resultAliases() {
			var next []variant
			for _, v := range variants {
				apply := func(vs *State, vret Value) (Value, bool) {
					env := u.paramEnv(vs, fn, args, entry)
					env.bindResults(cl, ct, vret)
					sv, ok := env.eval(cl, ra.rhs).(SliceV)
					if !ok {
						return vret, false
					}
					cp := Fresh("alias.cap", SortInt)
					vs.assume(And(IntLe(sv.Len, cp), IntLe(cp, sv.Cap)))
					nv := SliceV{sv.R, sv.Off, sv.Len, cp}
					if ra.res < 0 {
						for i, pn := range ct.ParamNames {
							if pn != ra.param {
								continue
							}
							if pv, ok := args[i].(PtrV); ok && pv.Obj != nil {
								if _, isSl := getPath(vs.objs[pv.Obj], pv.Path).(SliceV); isSl {
									vs.objs[pv.Obj] = setPath(vs.objs[pv.Obj], pv.Path, nv)
									return vret, true
								}
							}
						}
						return vret, false
					}
					if tv, isT := vret.(TupleV); isT {
						nt := append(TupleV(nil), tv...)
						nt[ra.res] = setPath(nt[ra.res], ra.path, nv)
						return nt, true
					}
					return setPath(vret, ra.path, nv), true
				}
				if ra.guard == nil {
					nr, _ := apply(v.st, v.ret)
					next = append(next, variant{v.st, nr})
					continue
				}
				genv := u.paramEnv(v.st, fn, args, entry)
				genv.bindResults(cl, ct, v.ret)
				g, ok := genv.eval(cl, ra.guard).(BoolV)
				if !ok {
					next = append(next, v)
					continue
				}
				sa, sb := v.st.clone(), v.st
				sa.assume(g.T)
				if nr, ok := apply(sa, v.ret); ok {
					next = append(next, variant{sa, nr})
					sb.assume(Not(g.T))
					next = append(next, variant{sb, v.ret})
				} else {
					next = append(next, v)
				}
			}
			variants = next
		}
	}
	var outs []Outcome
	for _, v := range variants {
		st, ret := v.st, v.ret
		if ct.AllocBound != nil {
			// ghost allocation counter: the callee's own bound
			env := u.paramEnv(st, fn, args, entry)
			b := env.eval(ct.AllocBound, ct.AllocBound.Expr).(IntV).T
			d := Fresh("alloc."+fn.Name(), SortInt)
			st.assume(And(IntLe(IntK(0), d), IntLe(d, b)))
			st.alloc = IntAdd(st.alloc, d)
		} else {
			d := Fresh("alloc."+fn.Name(), SortInt)
			st.assume(IntLe(IntK(0), d))
			st.alloc = IntAdd(st.alloc, d)
		}
		for _, cl := range ct.Ensures {
			if !cl.visible(u.prop) {
				continue
			}
			u.usedCallee[key][cl.Label] = true
			env := u.paramEnv(st, fn, args, entry)
			env.bindResults(cl, ct, ret)
			st.assume(env.formula(cl, false))
		}
		if !u.feasible(st) {
			continue
		}
		outs = append(outs, Outcome{st, ret})
	}
	if len(outs) == 0 {
		// the callee's postconditions contradict the state: either the path was infeasible before the call or the
		// contract (as modelled) is inconsistent; the latter would silently drop every obligation on this path, so it
		// is checked at discharge time (cover:call — vacuous iff the pre-state is satisfiable and the post-state is not)
		if u.specMode == 0 {
			u.obls = append(u.obls, &Obligation{Name: fmt.Sprintf("%s#cover:call:%s@%s", fnKey(u.fn), key, site), Kind: "cover", Tags: []string{"support"},
				Hyps: variants[0].st.hyps(), Pre: entry.hyps(), Goal: False, Cover: true, Func: fnKey(u.fn)})
		}
		return nil, true
	}
	return outs, true
}

// markFresh marks regions reachable from a callee's havocked outputs: they are either fresh or alias the
// callee's inputs; for the caller's frame check they count as not-caller-owned unless proven fresh by contract.
func markFresh(u *Unit, st *State, v Value) {
	switch x := v.(type) {
	case SliceV:
		if x.R != nil {
			x.R.input = false
			x.R.fresh = true
		}
	case StringV:
		if x.R != nil {
			x.R.fresh = true
		}
	case StructV:
		for _, f := range x.F {
			markFresh(u, st, f)
		}
	case TupleV:
		for _, f := range x {
			markFresh(u, st, f)
		}
	}
}

func markForeign(v Value) {
	switch x := v.(type) {
	case SliceV:
		if x.R != nil {
			x.R.input, x.R.fresh = false, false
		}
	case StructV:
		for _, f := range x.F {
			markForeign(f)
		}
	case TupleV:
		for _, f := range x {
			markForeign(f)
		}
	}
}

// collector: a closure of the form func(x T) bool { *cell = append(*cell, x); return true }.
type collector struct {
	cell     *Object
	elemSort *Sort
}

func (u *Unit) collectorClosure(st *State, fv FuncV) (collector, bool) {
	fn := fv.Fn
	if len(fn.FreeVars) != 1 || len(fv.Binds) != 1 || len(fn.Params) != 1 {
		return collector{}, false
	}
	p, ok := fv.Binds[0].(PtrV)
	if !ok || p.Obj == nil || len(p.Path) != 0 {
		return collector{}, false
	}
	sl, ok := st.objs[p.Obj].(SliceV)
	if !ok || sl.R == nil {
		return collector{}, false
	}
	es := scalarSort(sl.R.Elem)
	if es == nil {
		return collector{}, false
	}
	stores, appends := 0, 0
	for _, b := range fn.Blocks {
		for _, in := range b.Instrs {
			switch x := in.(type) {
			case *ssa.Store:
				if x.Addr == fn.FreeVars[0] {
					stores++
					c, ok := x.Val.(*ssa.Call)
					if !ok {
						return collector{}, false
					}
					bi, ok := c.Common().Value.(*ssa.Builtin)
					if !ok || bi.Name() != "append" {
						return collector{}, false
					}
					ld, ok := c.Common().Args[0].(*ssa.UnOp)
					if !ok || ld.X != fn.FreeVars[0] {
						return collector{}, false
					}
					appends++
				} else if a, ok := x.Addr.(*ssa.Alloc); ok {
					_ = a // parameter cell, varargs array
				} else if ia, ok := x.Addr.(*ssa.IndexAddr); ok {
					if _, ok := ia.X.(*ssa.Alloc); !ok {
						return collector{}, false
					}
				} else {
					return collector{}, false
				}
			case *ssa.Return:
				if len(x.Results) != 1 {
					return collector{}, false
				}
				if !alwaysTrue(fn, x.Results[0]) {
					return collector{}, false
				}
			case *ssa.Call:
				if bi, ok := x.Common().Value.(*ssa.Builtin); !ok || (bi.Name() != "append" && bi.Name() != "ssa:deferstack") {
					return collector{}, false
				}
			case *ssa.If, *ssa.MapUpdate, *ssa.Go, *ssa.Defer:
				return collector{}, false
			}
		}
	}
	if stores != 1 || appends != 1 {
		return collector{}, false
	}
	return collector{p.Obj, es}, true
}

// alwaysTrue: v is the constant true, or a load of a local whose every store is the constant true.
func alwaysTrue(fn *ssa.Function, v ssa.Value) bool {
	isTrue := func(x ssa.Value) bool {
		c, ok := x.(*ssa.Const)
		return ok && c.Value != nil && c.Value.String() == "true"
	}
	if isTrue(v) {
		return true
	}
	ld, ok := v.(*ssa.UnOp)
	if !ok {
		return false
	}
	cell, ok := ld.X.(*ssa.Alloc)
	if !ok {
		return false
	}
	n := 0
	for _, b := range fn.Blocks {
		for _, in := range b.Instrs {
			if s, ok := in.(*ssa.Store); ok && s.Addr == cell {
				n++
				if !isTrue(s.Val) {
					return false
				}
			}
		}
	}
	return n > 0
}

// applyKeeps: fields declared `keeps` hold a re-slice of the array they held before the call.
func (u *Unit) applyKeeps(st *State, ct *Contract, pname string, t types.Type, oldv, nv Value) Value {
	stt, ok := t.Underlying().(*types.Struct)
	if !ok {
		return nv
	}
	osv, ok1 := oldv.(StructV)
	nsv, ok2 := nv.(StructV)
	if !ok1 || !ok2 {
		return nv
	}
	for _, k := range ct.Keeps {
		if !strings.HasPrefix(k, pname+".") {
			continue
		}
		fname := strings.TrimPrefix(k, pname+".")
		for i := 0; i < stt.NumFields(); i++ {
			if stt.Field(i).Name() != fname {
				continue
			}
			osl, ok := osv.F[i].(SliceV)
			if !ok || osl.R == nil {
				continue
			}
			off, ln, cp := Fresh(k+".off", SortInt), Fresh(k+".len", SortInt), Fresh(k+".cap", SortInt)
			st.assume(And(IntLe(osl.Off, off), IntLe(IntK(0), ln), IntLe(ln, cp), Eq(IntAdd(off, cp), IntAdd(osl.Off, osl.Cap))))
			nf := append([]Value(nil), nsv.F...)
			nf[i] = SliceV{osl.R, off, ln, cp}
			nsv = StructV{nf}
		}
	}
	return nsv
}
