#!/bin/sh
# mustpass.sh: behaviour-preserving edits (selftest/refactors). Each is applied to a scratch copy of /repo HEAD;
# the listed checks must still exit 0 with the unchanged contracts. Prints PASS / FALSE-ALARM per patch+property.
cd "$(dirname "$0")/.."
V=$(pwd); export GOFLAGS=-mod=mod GOPROXY=off GOSUMDB=off GOTOOLCHAIN=local
bad=0
for f in selftest/refactors/*.patch; do
  props=$(python3 -c "import json;print(' '.join(json.load(open('selftest/refactors/expect.json'))['$(basename $f)']))")
  scratch=$(mktemp -d /tmp/govc-scratch.XXXXXX); out=$(mktemp -d /tmp/govc-out.XXXXXX)
  git -C /repo archive HEAD | tar -x -C "$scratch"; cp known_findings.json "$out/"; cp -r known bounded "$out/"
  if ! (cd "$scratch" && git apply "$V/$f" 2>/dev/null && go build ./... 2>/dev/null); then echo "$(basename $f) PATCH-BROKEN"; rm -rf "$scratch" "$out"; continue; fi
  for p in $props; do
    res=$(timeout 900 bin/govc check --property $p --tier quick --repo "$scratch" --verif "$out" 2>&1); rc=$?
    if [ $rc -eq 0 ]; then echo "$(basename $f) $p PASS"; else echo "$(basename $f) $p FALSE-ALARM rc=$rc $(echo "$res" | grep '^VIOLATION\|contract error' | head -1 | cut -c1-160)"; bad=1; fi
  done
  rm -rf "$scratch" "$out"
done
exit $bad
