package main

import (
	"fmt"
	"go/types"
	"runtime/debug"
	"sort"
	"strings"
	"time"

	"golang.org/x/tools/go/ssa"
)

type entryVar struct {
	Name string // parameter name (or name.field)
	Kind string // bytes | scalar | len
	Term *Term
	Type string
	Arr  *Term // for bytes: the base array
}

type UnitResult struct {
	Key        string
	Prop       string
	Obls       []*Obligation
	Unsup      map[string]int
	Aborted    string
	Paths      int
	Trunc      int
	IncQueries int
	IncTime    time.Duration
	Wall       time.Duration
	UsedCallee map[string]map[string]bool
	Inlined    []string
	Entry      []entryVar
	Bounded    bool
	K          int
}

func (e *Engine) newUnit(ct *Contract, prop string) *Unit {
	return &Unit{eng: e, fn: ct.Fn, ct: ct, prop: prop, K: 1, unsup: map[string]int{}, derivedTab: map[string]*Region{}, captured: map[*Object]bool{},
		exprText: map[*ssa.Function]map[tokenPos]string{}, usedCallee: map[string]map[string]bool{}, inlined: map[string]bool{},
		modRecv: map[*Object]bool{}, modRgn: map[*Region]bool{}, maxPaths: 600, cellTab: map[*ssa.Function]map[tokenPos]*ssa.Alloc{}, cellMulti: map[*ssa.Function]map[tokenPos][]*ssa.Alloc{},
		aliasBase: map[*Region]*Region{}, except: map[string]*Term{}}
}

// VerifyMonotone proves the premise of `rec monotone`: for n > 0 the unfolded body is at least the value at n-1
// (and the value for n <= 0 is 0 by the function's own first branch, checked as body(n<=0) >= 0).
func (e *Engine) VerifyMonotone(ct *Contract, prop string) *UnitResult {
	t0 := time.Now()
	u := e.newUnit(ct, prop)
	u.inc = NewIncSolver()
	defer u.inc.Close()
	res := &UnitResult{Key: ct.Key, Prop: prop}
	defer func() {
		if r := recover(); r != nil {
			u.aborted = fmt.Sprintf("monotone step of %s: %v", ct.Key, r)
		}
		res.Obls, res.Unsup, res.Aborted, res.Wall = u.obls, u.unsup, u.aborted, time.Since(t0)
		if len(u.unsup) > 0 || u.aborted != "" {
			res.Obls = append(res.Obls, &Obligation{Name: ct.Key + "#subset", Kind: "subset", Tags: []string{"support"}, Goal: False, Func: ct.Key,
				Res: &ProveResult{Status: "unsupported", Output: u.aborted + fmt.Sprint(u.unsup)}})
		}
	}()
	fn := ct.Fn
	st := newState()
	var args []Value
	for _, prm := range fn.Params {
		args = append(args, u.havoc(st, prm.Type(), prm.Name()))
	}
	bi := -1
	for i := len(args) - 1; i >= 0; i-- {
		if iv, ok := args[i].(IntV); ok && iv.T.IsInt() {
			bi = i
			break
		}
	}
	if bi < 0 {
		u.aborted = "no bound argument"
		return res
	}
	n := args[bi].(IntV).T
	// body at n (one unfolding) and the application at n-1
	u.recDepth = 1 // applications created while executing the body are not unfolded again
	u.specMode++
	s0 := st.clone()
	base := len(s0.pc)
	outs := u.callFn(s0, fn, args, nil, 1, "")
	u.specMode--
	u.recDepth = 0
	prev := append([]Value(nil), args...)
	prev[bi] = IntV{IntSub(n, IntK(1)), true}
	for i, o := range outs {
		body, ok := o.ret.(IntV)
		if !ok {
			u.aborted = "monotone function must return int"
			return res
		}
		ps := o.st
		u.recDepth = 1
		pv := u.recCall(ps, fn, prev).(IntV).T
		u.recDepth = 0
		cond := True
		if len(ps.pc) > base {
			cond = And(ps.pc[base:]...)
		}
		_ = cond
		goal := And(Implies(IntLt(IntK(0), n), IntLe(pv, body.T)), Implies(IntLe(n, IntK(0)), Eq(body.T, IntK(0))))
		u.oblige(ps, fmt.Sprintf("%s#monotone-step.path%d", ct.Key, i), "inv-preserve", []string{"support"}, goal, "rec monotone")
	}
	return res
}

// Verify runs one function against its contract under the projection prop.
func (e *Engine) Verify(ct *Contract, prop string, findings []Finding) (res *UnitResult) {
	t0 := time.Now()
	if ct.Broken != "" {
		return &UnitResult{Key: ct.Key, Prop: prop, UsedCallee: map[string]map[string]bool{}, Unsup: map[string]int{"contract does not resolve: " + ct.Broken: 1},
			Obls: []*Obligation{{Name: ct.Key + "#subset", Kind: "subset", Func: ct.Key, Goal: False,
				Res: &ProveResult{Status: "unsupported", Output: "contract does not resolve against the current source: " + ct.Broken}}}}
	}
	u := e.newUnit(ct, prop)
	for _, n := range ct.Unroll {
		if n > u.K {
			u.K = n
		}
	}
	u.inc = NewIncSolver()
	defer u.inc.Close()
	res = &UnitResult{Key: ct.Key, Prop: prop}
	defer func() {
		if r := recover(); r != nil {
			if sp, ok := r.(specPanic); ok {
				u.aborted = fmt.Sprintf("contract of %s: %s", ct.Key, sp.msg)
			} else {
				u.aborted = fmt.Sprintf("engine panic in %s: %v\n%s", ct.Key, r, debug.Stack())
			}
		}
		res.Obls, res.Unsup, res.Aborted, res.Paths, res.Trunc = u.obls, u.unsup, u.aborted, u.paths, u.trunc
		res.IncQueries, res.IncTime, res.Wall = u.inc.N, u.inc.Time, time.Since(t0)
		res.UsedCallee, res.Entry = u.usedCallee, u.entryDesc
		for k := range u.inlined {
			res.Inlined = append(res.Inlined, k)
		}
		sort.Strings(res.Inlined)
		if len(u.unsup) > 0 || u.aborted != "" {
			var why []string
			for _, k := range sortedKeys(u.unsup) {
				why = append(why, fmt.Sprintf("%s ×%d", k, u.unsup[k]))
			}
			if u.aborted != "" {
				why = append(why, u.aborted)
			}
			o := &Obligation{Name: ct.Key + "#subset", Kind: "subset", Tags: []string{"support"}, Goal: False, Func: ct.Key,
				Res: &ProveResult{Status: "unsupported", Output: strings.Join(why, "; ")}}
			res.Obls = append(res.Obls, o)
		}
	}()

	fn := ct.Fn
	st := newState()
	var args []Value
	for i, prm := range fn.Params {
		t := prm.Type()
		name := prm.Name()
		switch ut := t.Underlying().(type) {
		case *types.Pointer:
			var v Value
			if ct.Recv == "any" || (ct.Recv == "" && !(i == 0 && fn.Signature.Recv() != nil && isModified(ct, i))) {
				v = u.havoc(st, ut.Elem(), name)
			} else {
				v = u.zero(st, ut.Elem())
			}
			if ct.Recv == "zero" {
				v = u.zero(st, ut.Elem())
			}
			u.nextID++
			o := &Object{id: u.nextID, fresh: false, name: name}
			st.objs[o] = v
			if isModified(ct, i) {
				u.modRecv[o] = true
			}
			args = append(args, PtrV{Obj: o})
			u.describe(name, ut.Elem(), v)
		default:
			v := u.havoc(st, t, name)
			if sl, ok := v.(SliceV); ok && isModified(ct, i) && sl.R != nil {
				u.modRgn[sl.R] = true
			}
			args = append(args, v)
			u.describe(name, t, v)
		}
	}
	for _, m := range ct.Mutates {
		parts := strings.SplitN(m, ".", 2)
		for i, pn := range ct.ParamNames {
			if pn != parts[0] || len(parts) != 2 || i >= len(args) {
				continue
			}
			sv, ok := args[i].(StructV)
			stt, ok2 := fn.Params[i].Type().Underlying().(*types.Struct)
			if !ok || !ok2 {
				continue
			}
			for fi := 0; fi < stt.NumFields(); fi++ {
				if sl, ok := sv.F[fi].(SliceV); ok && stt.Field(fi).Name() == parts[1] && sl.R != nil {
					u.modRgn[sl.R] = true
				}
			}
		}
	}
	for _, ev := range u.entryDesc {
		if ev.Kind == "bytes" {
			for i := int64(0); i < 48; i++ {
				u.getvals = append(u.getvals, Select(ev.Arr, IntK(i)))
			}
		} else {
			u.getvals = append(u.getvals, ev.Term)
		}
	}
	entry := st.clone()
	// known-finding predicates: evaluated over the entry values
	for _, f := range findings {
		if f.Function != ct.Key || f.Predicate == "" {
			continue
		}
		cl, err := e.parseClause(ct, rawClause{kind: "requires", text: f.Predicate}, funcDeclOf(fn).Body.Lbrace+1, false, 0)
		if err != nil {
			u.aborted = fmt.Sprintf("known finding predicate %q: %v", f.Predicate, err)
			return
		}
		env := u.paramEnv(st, fn, args, entry)
		u.except[f.Obligation] = env.formula(cl, true)
	}
	// requires
	for _, cl := range ct.Requires {
		if !cl.visible(prop) {
			continue
		}
		env := u.paramEnv(st, fn, args, entry)
		st.assume(env.formula(cl, false))
	}
	u.cover(st, ct.Key+"#cover:pre")

	fr := u.newFrame(fn, args, 0, st)
	fr.top, fr.ct, fr.entrySt = true, ct, entry
	u.topFrame = fr
	outs := u.enter(st, fr, fn.Blocks[0])
	if u.aborted != "" {
		return
	}
	for _, o := range outs {
		for _, cl := range ct.Ensures {
			if !cl.visible(prop) {
				continue
			}
			env := u.paramEnv(o.st, fn, args, entry)
			env.bindResults(cl, ct, o.ret)
			g, err := env.safeFormula(cl, true)
			if err != nil {
				u.specError("ensures "+cl.Label, err)
				return
			}
			u.oblige(o.st, fmt.Sprintf("%s#ensures:%s", ct.Key, cl.Label), "post", cl.Tags, g, cl.Text)
		}
		if ct.AllocBound != nil && ct.AllocBound.visible(prop) {
			env := u.paramEnv(o.st, fn, args, entry)
			b := toInt(env.eval(ct.AllocBound, ct.AllocBound.Expr).(IntV))
			u.oblige(o.st, ct.Key+"#allocates", "post", ct.AllocBound.Tags, IntLe(o.st.alloc, b), ct.AllocBound.Text)
		}
		for _, k := range ct.Keeps {
			// the callee under verification must itself only re-slice the field
			parts := strings.SplitN(k, ".", 2)
			same := False
			for i, pn := range ct.ParamNames {
				if pn != parts[0] || len(parts) != 2 {
					continue
				}
				pv, ok := args[i].(PtrV)
				if !ok || pv.Obj == nil {
					continue
				}
				stt, ok := fn.Params[i].Type().Underlying().(*types.Pointer).Elem().Underlying().(*types.Struct)
				if !ok {
					continue
				}
				for fi := 0; fi < stt.NumFields(); fi++ {
					if stt.Field(fi).Name() == parts[1] {
						o0, ok0 := getPath(entry.objs[pv.Obj], append(append([]int(nil), pv.Path...), fi)).(SliceV)
						o1, ok1 := getPath(o.st.objs[pv.Obj], append(append([]int(nil), pv.Path...), fi)).(SliceV)
						if ok0 && ok1 {
							same = BoolK(o0.R == o1.R)
						}
					}
				}
			}
			u.oblige(o.st, ct.Key+"#keeps:"+k, "frame", []string{"C18"}, same, "keeps "+k)
		}
		if ct.FreshRes {
			ok := True
			var chk func(v Value)
			chk = func(v Value) {
				switch x := v.(type) {
				case SliceV:
					if x.R != nil && !x.R.fresh {
						ok = And(ok, Eq(x.Len, IntK(0)))
					}
				case TupleV:
					for _, y := range x {
						chk(y)
					}
				}
			}
			chk(o.ret)
			u.oblige(o.st, ct.Key+"#fresh-result", "frame", []string{"C18"}, ok, "fresh")
		}
	}
	if len(outs) == 0 && u.aborted == "" && len(u.unsup) == 0 {
		// no return path at all: either every input panics/diverges (reported by the safety obligations) or the
		// precondition is contradictory (reported by the cover)
	}
	return
}

func isModified(ct *Contract, i int) bool {
	for _, m := range ct.ModifiesIdx {
		if m == i {
			return true
		}
	}
	return false
}

// describe records how the entry values map to solver terms (for counterexample extraction).
func (u *Unit) describe(name string, t types.Type, v Value) {
	switch x := v.(type) {
	case IntV:
		u.entryDesc = append(u.entryDesc, entryVar{Name: name, Kind: "scalar", Term: x.T, Type: relType(t)})
	case BoolV:
		u.entryDesc = append(u.entryDesc, entryVar{Name: name, Kind: "scalar", Term: x.T, Type: relType(t)})
	case FloatV:
		u.entryDesc = append(u.entryDesc, entryVar{Name: name, Kind: "scalar", Term: x.T, Type: relType(t)})
	case SliceV:
		if x.R == nil {
			return
		}
		u.entryDesc = append(u.entryDesc, entryVar{Name: name, Kind: "len", Term: x.Len, Type: relType(t)})
		if isByteType(x.R.Elem) {
			m := u.compMem(newState(), x.R, "", BVSort(8))
			if bm, ok := m.(baseMem); ok {
				u.entryDesc = append(u.entryDesc, entryVar{Name: name, Kind: "bytes", Term: x.Len, Arr: bm.arr, Type: relType(t)})
			}
		}
	case StringV:
		if x.R == nil {
			return
		}
		u.entryDesc = append(u.entryDesc, entryVar{Name: name, Kind: "len", Term: x.Len, Type: relType(t)})
	case StructV:
		st, ok := t.Underlying().(*types.Struct)
		if !ok {
			return
		}
		for i, f := range x.F {
			u.describe(name+"."+st.Field(i).Name(), st.Field(i).Type(), f)
		}
	}
}
