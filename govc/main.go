package main

import (
	"flag"
	"fmt"
	"os"
	"strconv"
)

func main() {
	if len(os.Args) < 2 {
		fmt.Fprintln(os.Stderr, "usage: govc check --property Cxx [--tier quick|thorough] [--repo dir] [--verif dir] [--only func] [-v]")
		os.Exit(2)
	}
	switch os.Args[1] {
	case "check":
		fs := flag.NewFlagSet("check", flag.ExitOnError)
		var o CheckOpts
		fs.StringVar(&o.Prop, "property", "", "property id (empty: all clauses)")
		fs.StringVar(&o.Tier, "tier", "quick", "quick | thorough")
		fs.StringVar(&o.Repo, "repo", "/repo", "repository under verification")
		fs.StringVar(&o.VerifDir, "verif", "/verif", "verification directory (evidence, replays, known findings)")
		fs.StringVar(&o.Only, "only", "", "verify only this function (debugging; no evidence written)")
		fs.BoolVar(&o.Verbose, "v", false, "verbose")
		fs.BoolVar(&o.KeepSMT, "keep", false, "keep SMT files")
		fs.BoolVar(&o.NoReplay, "noreplay", false, "do not replay models")
		fs.Parse(os.Args[2:])
		if s := os.Getenv("VERIF_SEED"); s != "" {
			o.Seed, _ = strconv.Atoi(s)
		}
		if t := os.Getenv("VERIF_TIER"); t != "" && o.Tier == "" {
			o.Tier = t
		}
		os.Exit(RunCheck(o))
	case "replay":
		fs := flag.NewFlagSet("replay", flag.ExitOnError)
		file := fs.String("file", "", "replay file written by a failed check")
		repo := fs.String("repo", "/repo", "repository")
		verif := fs.String("verif", "/verif", "verification directory")
		fs.Parse(os.Args[2:])
		os.Exit(RunReplay(*file, *repo, *verif))
	default:
		fmt.Fprintln(os.Stderr, "unknown command", os.Args[1])
		os.Exit(2)
	}
}
