package main

// Loop cut points: establish / havoc / assume / preserve, with decreases.

import (
	"fmt"
	"go/ast"
	"go/types"

	"golang.org/x/tools/go/ssa"
)

func (u *Unit) loopContract(fr *Frame, b *ssa.BasicBlock) *LoopContract {
	if fr.ct == nil {
		// a loop of an inlined helper that the unit's contract annotates (extracted loop)
		if u.ct != nil && u.specMode == 0 {
			for _, lc := range u.ct.Loops {
				if lc.floating && lc.header == b {
					return lc
				}
			}
		}
		return nil
	}
	for _, lc := range fr.ct.Loops {
		if lc.header == b {
			return lc
		}
	}
	return nil
}

func (u *Unit) invTags(cl *Clause) []string {
	if len(cl.Tags) == 0 {
		return []string{"support"}
	}
	return cl.Tags
}

func (u *Unit) cutLoop(st *State, fr *Frame, b *ssa.BasicBlock, lc *LoopContract) []Outcome {
	phase := "establish"
	if fr.loopSeen[b] {
		phase = "preserve"
	} else {
		fr.loopSnap[b] = st.clone()
	}
	for _, cl := range lc.Invariants {
		if !cl.visible(u.prop) {
			continue
		}
		g, err := u.invEnv(st, fr, b).safeFormula(cl, true)
		if err != nil {
			u.specError(fmt.Sprintf("loop %d %s", lc.Ord, cl.Label), err)
			return nil
		}
		name := fmt.Sprintf("%s#loop%d.%s:%s", fnKey(u.fn), lc.Ord, phase, cl.Label)
		u.oblige(st, name, "inv-"+phase, u.invTags(cl), g, cl.Text)
	}
	if phase == "preserve" {
		for _, kc := range lc.Keeps {
			// len(<expr>): the argument is the kept slice
			arg := kc.Expr.(*ast.CallExpr).Args[0]
			cur, ok1 := u.invEnv(st, fr, b).eval(kc, arg).(SliceV)
			senv := u.invEnv(st, fr, b)
			senv.st = fr.loopSnap[b]
			was, ok2 := senv.eval(kc, arg).(SliceV)
			same := ok1 && ok2 && cur.R == was.R
			u.oblige(st, fmt.Sprintf("%s#loop%d.keeps:%s", fnKey(u.fn), lc.Ord, kc.Text), "inv-preserve", []string{"support"}, BoolK(same), kc.Text)
		}
		if lc.Decreases != nil {
			env := u.invEnv(st, fr, b)
			d1 := toInt(env.eval(lc.Decreases, lc.Decreases.Expr).(IntV))
			d0 := fr.loopDec[b]
			g := And(IntLe(IntK(0), d0), IntLt(d1, d0))
			name := fmt.Sprintf("%s#loop%d.decreases", fnKey(u.fn), lc.Ord)
			u.oblige(st, name, "decreases", u.invTags(lc.Decreases), g, lc.Decreases.Text)
		}
		return nil // the path ends at the cut point
	}
	fr.loopSeen[b] = true
	fr.loopSnap[b] = st.clone()
	if !u.havocLoop(st, fr, lc) {
		return nil
	}
	if st.tlen != nil || u.loopCallsBack(lc) {
		// the callback trace only grows: entries below the old length are kept
		if st.tlen == nil {
			st.tlen, st.targ, st.tret = IntK(0), nil, nil
		}
		oldLen, oldArg, oldRet := st.tlen, st.targ, st.tret
		st.tlen = Fresh("cb.len", SortInt)
		st.assume(IntLe(oldLen, st.tlen))
		if oldArg != nil {
			st.targ = baseMem{Fresh("cb.arg", ArrSort(SortInt, oldArg.sort()))}
			st.tret = baseMem{Fresh("cb.ret", ArrSort(SortInt, SortBool))}
			na, nr := st.targ, st.tret
			st.qh = append(st.qh, &QHyp{text: "callback trace prefix", n: 1, sorts: []*Sort{SortInt}, inst: func(ks []*Term) *Term {
				k := ks[0]
				return Implies(And(IntLe(IntK(0), k), IntLt(k, oldLen)), And(Eq(na.read(k), oldArg.read(k)), Eq(nr.read(k), oldRet.read(k))))
			}})
		}
	}
	if u.loopAllocates(fr, lc) {
		a0 := st.alloc
		st.alloc = Fresh("alloc.loop", SortInt)
		st.assume(IntLe(a0, st.alloc))
	}
	for _, kc := range lc.Keeps {
		if !u.restoreKept(st, fr, b, kc) {
			u.specError(fmt.Sprintf("loop %d keeps", lc.Ord), fmt.Errorf("%s is not a local or a field of a local struct", kc.Text))
			return nil
		}
	}
	for _, cl := range lc.Invariants {
		if !cl.visible(u.prop) {
			continue
		}
		g, err := u.invEnv(st, fr, b).safeFormula(cl, false)
		if err != nil {
			u.specError(fmt.Sprintf("loop %d %s", lc.Ord, cl.Label), err)
			return nil
		}
		st.assume(g)
	}
	if lc.Decreases != nil {
		fr.loopDec[b] = toInt(u.invEnv(st, fr, b).eval(lc.Decreases, lc.Decreases.Expr).(IntV))
	}
	// cover: the invariants together with the state must be satisfiable (non-vacuity)
	u.cover(st, fmt.Sprintf("%s#cover:loop%d", fnKey(u.fn), lc.Ord))
	if lc.Cases != nil {
		if !u.markCases(st, fr, b, lc) {
			return nil
		}
	}
	return u.run(st, fr, b, 0)
}

func (u *Unit) cover(st *State, name string) {
	o := &Obligation{Name: name, Kind: "cover", Tags: []string{"support"}, Hyps: st.hyps(), Goal: False, Cover: true, Func: fnKey(u.fn)}
	u.obls = append(u.obls, o)
}

func (u *Unit) specError(where string, err error) {
	u.aborted = fmt.Sprintf("contract of %s, %s: %v", fnKey(u.fn), where, err)
}

// rootOf follows slicing / field / index address chains back to the cell or value they start from.
func rootOf(v ssa.Value) ssa.Value {
	for {
		switch x := v.(type) {
		case *ssa.Slice:
			v = x.X
		case *ssa.IndexAddr:
			v = x.X
		case *ssa.FieldAddr:
			v = x.X
		case *ssa.ChangeType:
			v = x.X
		case *ssa.Convert:
			v = x.X
		default:
			return v
		}
	}
}

// havocLoop forgets everything the loop body may write: cells declared outside the loop, fields of objects
// reached through such cells, and regions written through slices held in such cells.
func (u *Unit) havocLoop(st *State, fr *Frame, lc *LoopContract) bool {
	done := map[string]bool{}
	inLoop := func(v ssa.Value) bool {
		if in, ok := v.(ssa.Instruction); ok {
			return lc.body[in.Block()]
		}
		return false
	}
	havocCell := func(a *ssa.Alloc) {
		key := "cell" + a.Name()
		if done[key] {
			return
		}
		done[key] = true
		p, ok := fr.regs[a].(PtrV)
		if !ok {
			return
		}
		old := st.objs[p.Obj]
		// a slice variable that the loop only ever re-slices (x = x[i:j]) keeps its backing array
		if osl, ok := old.(SliceV); ok && osl.R != nil && u.onlyResliced(fr, lc, a) {
			off, ln, cp := Fresh(a.Comment+".off", SortInt), Fresh(a.Comment+".len", SortInt), Fresh(a.Comment+".cap", SortInt)
			st.assume(And(IntLe(osl.Off, off), IntLe(IntK(0), ln), IntLe(ln, cp), Eq(IntAdd(off, cp), IntAdd(osl.Off, osl.Cap))))
			st.objs[p.Obj] = SliceV{osl.R, off, ln, cp}
			return
		}
		// a pointer variable that pointed to an object of this activation still points to one (arbitrary contents)
		if op, ok := old.(PtrV); ok && op.Obj != nil && op.Obj.fresh && len(op.Path) == 0 {
			if pt, ok := a.Type().(*types.Pointer).Elem().Underlying().(*types.Pointer); ok {
				o := u.newObject(st, u.havoc(st, pt.Elem(), a.Comment+".pointee"), a.Comment)
				st.objs[p.Obj] = PtrV{Obj: o}
				return
			}
		}
		nv := u.havoc(st, a.Type().(*types.Pointer).Elem(), a.Comment)
		if u.onlyGrown(fr, lc, a) {
			inheritFresh(old, nv)
		} else {
			markForeign(nv) // the loop may store a slice it did not allocate: neither fresh nor input
		}
		st.objs[p.Obj] = nv
	}
	var havocThrough func(addr ssa.Value) bool
	havocRegionOfValue := func(v Value) {
		switch s := v.(type) {
		case SliceV:
			if s.R != nil && !done[fmt.Sprint("rgn", s.R.id)] {
				done[fmt.Sprint("rgn", s.R.id)] = true
				u.havocRegion(st, s.R)
			}
		case ArrayV:
			if !done[fmt.Sprint("rgn", s.R.id)] {
				done[fmt.Sprint("rgn", s.R.id)] = true
				u.havocRegion(st, s.R)
			}
		}
	}
	// havocThrough: memory written through address expression addr
	havocThrough = func(addr ssa.Value) bool {
		switch a := addr.(type) {
		case *ssa.Alloc:
			if !lc.body[a.Block()] {
				havocCell(a)
			}
			return true
		case *ssa.FieldAddr:
			// X is a pointer: an Alloc (local struct) or a load of a cell holding a pointer
			switch x := a.X.(type) {
			case *ssa.Alloc:
				if !lc.body[x.Block()] {
					p := fr.regs[x].(PtrV)
					key := fmt.Sprint("field", x.Name(), a.Field)
					if !done[key] {
						done[key] = true
						ft := a.Type().(*types.Pointer).Elem()
						old := getPath(st.objs[p.Obj], append(append([]int(nil), p.Path...), a.Field))
						nv := u.havoc(st, ft, x.Comment+"."+fmt.Sprint(a.Field))
						inheritFresh(old, nv)
						st.objs[p.Obj] = setPath(st.objs[p.Obj], append(append([]int(nil), p.Path...), a.Field), nv)
					}
				}
				return true
			case *ssa.UnOp:
				if cell, ok := x.X.(*ssa.Alloc); ok {
					if lc.body[cell.Block()] {
						return true
					}
					pv, ok := u.load(st, fr, fr.regs[cell], nil)
					if !ok {
						return false
					}
					switch p := pv.(type) {
					case PtrV:
						if p.Obj == nil {
							return true
						}
						key := fmt.Sprint("objfield", p.Obj.id, p.Path, a.Field)
						if !done[key] {
							done[key] = true
							ft := a.Type().(*types.Pointer).Elem()
							path := append(append([]int(nil), p.Path...), a.Field)
							old := getPath(st.objs[p.Obj], path)
							nv := u.havoc(st, ft, cell.Comment+"."+fmt.Sprint(a.Field))
							inheritFresh(old, nv)
							st.objs[p.Obj] = setPath(st.objs[p.Obj], path, nv)
						}
						return true
					case ElemPtr:
						if !done[fmt.Sprint("rgn", p.R.id)] {
							done[fmt.Sprint("rgn", p.R.id)] = true
							u.havocRegion(st, p.R)
						}
						return true
					}
				}
				if inLoop(x) {
					// pointer computed inside the loop (e.g. element of a ranged slice of pointers)
					return havocThrough(x.X)
				}
			case *ssa.FieldAddr:
				return havocThrough(x)
			case *ssa.IndexAddr:
				return havocThrough(x)
			}
		case *ssa.IndexAddr:
			root := rootOf(a.X)
			switch r := root.(type) {
			case *ssa.UnOp: // load of a cell holding the slice
				if cell, ok := r.X.(*ssa.Alloc); ok {
					if lc.body[cell.Block()] {
						return true // slice created inside the loop: fresh per iteration
					}
					v, ok := u.load(st, fr, fr.regs[cell], nil)
					if !ok {
						return false
					}
					havocRegionOfValue(v)
					return true
				}
				if fa, ok := r.X.(*ssa.FieldAddr); ok {
					// slice held in a field: havoc the field's region
					pv, ok := u.evalAddr(st, fr, fa)
					if ok {
						if v, ok := u.load(st, fr, pv, nil); ok {
							havocRegionOfValue(v)
							return true
						}
					}
				}
			case *ssa.Alloc: // local array
				if !lc.body[r.Block()] {
					if p, ok := fr.regs[r].(PtrV); ok {
						havocRegionOfValue(getPath(st.objs[p.Obj], p.Path))
					}
				}
				return true
			case *ssa.MakeSlice, *ssa.Call:
				if inLoop(r) {
					return true
				}
			}
		case *ssa.UnOp:
			// store through a loaded pointer: *p = v
			if cell, ok := a.X.(*ssa.Alloc); ok && !lc.body[cell.Block()] {
				pv, ok := u.load(st, fr, fr.regs[cell], nil)
				if !ok {
					return false
				}
				if p, ok := pv.(PtrV); ok && p.Obj != nil {
					key := fmt.Sprint("obj", p.Obj.id, p.Path)
					if !done[key] {
						done[key] = true
						t := a.Type().Underlying().(*types.Pointer).Elem()
						old := getPath(st.objs[p.Obj], p.Path)
						nv := u.havoc(st, t, cell.Comment)
						inheritFresh(old, nv)
						st.objs[p.Obj] = setPath(st.objs[p.Obj], p.Path, nv)
					}
					return true
				}
			}
			if inLoop(a) {
				return true
			}
		case *ssa.Global:
			return true // reported as a frame violation when executed
		}
		u.unsupported("loop havoc: store through %s (%T)", addr, addr)
		return false
	}
	for _, blk := range fr.fn.Blocks {
		if !lc.body[blk] {
			continue
		}
		for _, in := range blk.Instrs {
			switch s := in.(type) {
			case *ssa.Store:
				if !havocThrough(s.Addr) {
					return false
				}
			case *ssa.MapUpdate:
				u.unsupported("map update inside an annotated loop")
				return false
			case *ssa.Call:
				c := s.Common()
				if bi, ok := c.Value.(*ssa.Builtin); ok {
					if bi.Name() == "copy" || bi.Name() == "append" {
						// copy writes its first argument's region; in-place append writes its first argument's backing array
						root := rootOf(c.Args[0])
						if ld, ok := root.(*ssa.UnOp); ok {
							if cell, ok := ld.X.(*ssa.Alloc); ok && !lc.body[cell.Block()] {
								if v, ok := u.load(st, fr, fr.regs[cell], nil); ok {
									havocRegionOfValue(v)
								}
							} else if fa, ok := ld.X.(*ssa.FieldAddr); ok {
								if pv, ok := u.evalAddr(st, fr, fa); ok {
									if v, ok := u.load(st, fr, pv, nil); ok {
										havocRegionOfValue(v)
									}
								}
							}
						}
					}
					continue
				}
				// callee effects on memory reachable from arguments
				var ws []bool
				if c.IsInvoke() {
					ws = make([]bool, len(c.Args)+1)
					for i := range ws {
						ws[i] = true
					}
					// receiver is c.Value
					if !u.havocArg(st, fr, lc, c.Value, havocThrough, havocRegionOfValue) {
						return false
					}
					for _, a := range c.Args {
						if !u.havocArg(st, fr, lc, a, havocThrough, havocRegionOfValue) {
							return false
						}
					}
					continue
				}
				fn := c.StaticCallee()
				if fn == nil {
					continue // calls through function values: unknown callbacks are assumed effect-free (A9)
				}
				ws = u.eng.writeSummary(fn)
				for i, a := range c.Args {
					if i < len(ws) && ws[i] {
						if !u.havocArg(st, fr, lc, a, havocThrough, havocRegionOfValue) {
							return false
						}
					}
				}
			}
		}
	}
	return true
}

func (u *Unit) havocArg(st *State, fr *Frame, lc *LoopContract, a ssa.Value, havocThrough func(ssa.Value) bool, havocRegionOfValue func(Value)) bool {
	switch a.Type().Underlying().(type) {
	case *types.Pointer:
		switch x := a.(type) {
		case *ssa.Alloc:
			return havocThrough(x)
		case *ssa.FieldAddr, *ssa.IndexAddr:
			return havocThrough(x)
		case *ssa.UnOp:
			// pointer value loaded from a cell: the pointee object
			if cell, ok := x.X.(*ssa.Alloc); ok {
				if lc.body[cell.Block()] {
					// a per-iteration variable: where did its pointer value come from?
					for _, blk := range fr.fn.Blocks {
						if !lc.body[blk] {
							continue
						}
						for _, in2 := range blk.Instrs {
							if s2, ok := in2.(*ssa.Store); ok && s2.Addr == cell {
								if ld, ok := s2.Val.(*ssa.UnOp); ok {
									switch src := ld.X.(type) {
									case *ssa.IndexAddr, *ssa.FieldAddr:
										if !havocThrough(src) {
											return false
										}
									}
								}
							}
						}
					}
					return true
				}
				pv, ok := u.load(st, fr, fr.regs[cell], nil)
				if !ok {
					return false
				}
				switch p := pv.(type) {
				case PtrV:
					if p.Obj != nil {
						t := a.Type().Underlying().(*types.Pointer).Elem()
						old := getPath(st.objs[p.Obj], p.Path)
						nv := u.havoc(st, t, cell.Comment)
						inheritFresh(old, nv)
						st.objs[p.Obj] = setPath(st.objs[p.Obj], p.Path, nv)
					}
					return true
				case ElemPtr:
					u.havocRegion(st, p.R)
					return true
				}
			}
			if in, ok := a.(ssa.Instruction); ok && lc.body[in.Block()] {
				return havocThrough(x.X)
			}
		}
		if in, ok := a.(ssa.Instruction); ok && lc.body[in.Block()] {
			// pointer computed inside the loop from something: conservatively follow its root
			r := rootOf(a)
			if r != a {
				return havocThrough(a)
			}
			return true
		}
		return true
	case *types.Slice:
		root := rootOf(a)
		if ld, ok := root.(*ssa.UnOp); ok {
			if cell, ok := ld.X.(*ssa.Alloc); ok {
				if lc.body[cell.Block()] {
					return true
				}
				if v, ok := u.load(st, fr, fr.regs[cell], nil); ok {
					havocRegionOfValue(v)
				}
				return true
			}
			if fa, ok := ld.X.(*ssa.FieldAddr); ok {
				if pv, ok := u.evalAddr(st, fr, fa); ok {
					if v, ok := u.load(st, fr, pv, nil); ok {
						havocRegionOfValue(v)
					}
				}
				return true
			}
		}
		return true
	}
	return true
}

// evalAddr evaluates a FieldAddr chain rooted at a cell or a load of a cell (outside of execution order).
func (u *Unit) evalAddr(st *State, fr *Frame, fa *ssa.FieldAddr) (Value, bool) {
	var base Value
	switch x := fa.X.(type) {
	case *ssa.Alloc:
		v, ok := fr.regs[x]
		if !ok {
			return nil, false
		}
		base = v
	case *ssa.UnOp:
		cell, ok := x.X.(*ssa.Alloc)
		if !ok {
			return nil, false
		}
		cv, ok := fr.regs[cell]
		if !ok {
			return nil, false
		}
		v, ok := u.load(st, fr, cv, nil)
		if !ok {
			return nil, false
		}
		base = v
	case *ssa.FieldAddr:
		v, ok := u.evalAddr(st, fr, x)
		if !ok {
			return nil, false
		}
		base = v
	default:
		return nil, false
	}
	switch p := base.(type) {
	case PtrV:
		if p.Obj == nil {
			return nil, false
		}
		return PtrV{p.Obj, append(append([]int(nil), p.Path...), fa.Field)}, true
	case ElemPtr:
		st0 := p.Typ.Underlying().(*types.Struct)
		return ElemPtr{R: p.R, Idx: p.Idx, Path: fmt.Sprintf("%s.%d", p.Path, fa.Field), Typ: st0.Field(fa.Field).Type()}, true
	}
	return nil, false
}

// inheritFresh: a havocked value that replaces memory built by this activation stays owned by it.
func inheritFresh(old, nv Value) {
	switch o := old.(type) {
	case SliceV:
		if n, ok := nv.(SliceV); ok && n.R != nil {
			// (a slice without a modelled array counts as owned only if it has no capacity: a nil or empty slice;
			// (*c)[:0] of a caller's []Packet has none modelled either but appending to it writes the caller's array)
			if (o.R == nil && o.Cap != nil && o.Cap.C != nil && o.Cap.C.Sign() == 0) || (o.R != nil && o.R.fresh) {
				n.R.fresh = true
				n.R.input = false
			}
		}
	case StringV:
		if n, ok := nv.(StringV); ok && n.R != nil {
			if o.R == nil || o.R.fresh {
				n.R.fresh = true
			}
		}
	case StructV:
		if n, ok := nv.(StructV); ok {
			for i := range o.F {
				if i < len(n.F) {
					inheritFresh(o.F[i], n.F[i])
				}
			}
		}
	}
}

// loopAllocates: does the loop body contain an allocation site (make, new, append, heap cell, conversion, call)?
func (u *Unit) loopAllocates(fr *Frame, lc *LoopContract) bool {
	for blk := range lc.body {
		for _, in := range blk.Instrs {
			switch x := in.(type) {
			case *ssa.Alloc:
				if x.Heap && (x.Comment == "new" || x.Comment == "complit" || x.Comment == "slicelit" || x.Comment == "makeslice") {
					return true
				}
			case *ssa.MakeSlice, *ssa.MakeMap, *ssa.MakeInterface, *ssa.MakeClosure:
				return true
			case *ssa.Convert:
				if isStringType(x.Type()) || isStringType(x.X.Type()) {
					return true
				}
			case *ssa.BinOp:
				if isStringType(x.Type()) {
					return true
				}
			case *ssa.Call:
				if bi, ok := x.Common().Value.(*ssa.Builtin); ok {
					if bi.Name() == "append" {
						return true
					}
					continue
				}
				if fn := x.Common().StaticCallee(); fn != nil && !u.eng.fnAllocates(fn, 0) {
					continue
				}
				return true
			}
		}
	}
	return false
}

// fnAllocates: may a call of fn allocate (by the ghost counter's rules)? Contracts with `allocates 0` and
// transitively allocation-free bodies do not.
func (e *Engine) fnAllocates(fn *ssa.Function, depth int) bool {
	if ct := e.contracts[fnKey(fn)]; ct != nil && ct.AllocBound != nil {
		if tv, ok := ct.AllocBound.Info.Types[ct.AllocBound.Expr]; ok && tv.Value != nil && tv.Value.String() == "0" {
			return false
		}
		return true
	}
	if len(fn.Blocks) == 0 || depth > 6 {
		return true
	}
	for _, b := range fn.Blocks {
		for _, in := range b.Instrs {
			switch x := in.(type) {
			case *ssa.Alloc:
				if x.Heap && (x.Comment == "new" || x.Comment == "complit" || x.Comment == "slicelit" || x.Comment == "makeslice") {
					return true
				}
			case *ssa.MakeSlice, *ssa.MakeMap, *ssa.MakeInterface, *ssa.MakeClosure:
				return true
			case *ssa.Convert:
				if isStringType(x.Type()) || isStringType(x.X.Type()) {
					return true
				}
			case *ssa.Call:
				if bi, ok := x.Common().Value.(*ssa.Builtin); ok {
					if bi.Name() == "append" {
						return true
					}
					continue
				}
				callee := x.Common().StaticCallee()
				if callee == nil || e.fnAllocates(callee, depth+1) {
					return true
				}
			}
		}
	}
	return false
}

// markCases records a proof-by-cases hint: obligations raised after this cut point may be discharged once per
// value of a small-range local (plus the out-of-range case, which makes the case list complete).
func (u *Unit) markCases(st *State, fr *Frame, b *ssa.BasicBlock, lc *LoopContract) bool {
	env := u.invEnv(st, fr, b)
	id, ok := lc.Cases.Expr.(*ast.Ident)
	if !ok {
		u.specError(fmt.Sprintf("loop %d cases", lc.Ord), fmt.Errorf("cases wants a local variable"))
		return false
	}
	cell, ok := env.cells[lc.Cases.Info.Uses[id].Pos()]
	if !ok {
		u.specError(fmt.Sprintf("loop %d cases", lc.Ord), fmt.Errorf("%s is not a local variable", id.Name))
		return false
	}
	cur, ok := st.objs[fr.regs[cell].(PtrV).Obj].(IntV)
	if !ok || !cur.T.IsInt() {
		u.specError(fmt.Sprintf("loop %d cases", lc.Ord), fmt.Errorf("%s is not an int", id.Name))
		return false
	}
	st.caseTerm, st.caseLo, st.caseHi = cur.T, lc.CaseLo, lc.CaseHi
	return true
}

// splitCases continues from a loop head once per value of a small-range local (proof by cases): the
// completeness of the case list is its own obligation.
func (u *Unit) splitCases(st *State, fr *Frame, b *ssa.BasicBlock, lc *LoopContract) []Outcome {
	env := u.invEnv(st, fr, b)
	id, ok := lc.Cases.Expr.(*ast.Ident)
	if !ok {
		u.specError(fmt.Sprintf("loop %d cases", lc.Ord), fmt.Errorf("cases wants a local variable"))
		return nil
	}
	obj := lc.Cases.Info.Uses[id]
	cell, ok := env.cells[obj.Pos()]
	if !ok {
		u.specError(fmt.Sprintf("loop %d cases", lc.Ord), fmt.Errorf("%s is not a local variable", id.Name))
		return nil
	}
	p := fr.regs[cell].(PtrV)
	cur, ok := st.objs[p.Obj].(IntV)
	if !ok || !cur.T.IsInt() {
		u.specError(fmt.Sprintf("loop %d cases", lc.Ord), fmt.Errorf("%s is not an int", id.Name))
		return nil
	}
	u.oblige(st, fmt.Sprintf("%s#loop%d.cases-complete", fnKey(u.fn), lc.Ord), "inv-establish", []string{"support"},
		And(IntLe(IntK(int64(lc.CaseLo)), cur.T), IntLe(cur.T, IntK(int64(lc.CaseHi)))), lc.Cases.Text)
	var outs []Outcome
	for c := lc.CaseLo; c <= lc.CaseHi; c++ {
		s2, f2 := st.clone(), fr.clone()
		s2.assume(Eq(cur.T, IntK(int64(c))))
		if !u.feasible(s2) {
			continue
		}
		s2.objs[p.Obj] = IntV{IntK(int64(c)), true}
		outs = append(outs, u.run(s2, f2, b, 0)...)
	}
	return outs
}

// onlyResliced: every store to cell a inside the loop stores a re-slice of a's own current value.
func (u *Unit) onlyResliced(fr *Frame, lc *LoopContract, a *ssa.Alloc) bool {
	n := 0
	for blk := range lc.body {
		for _, in := range blk.Instrs {
			s, ok := in.(*ssa.Store)
			if !ok || s.Addr != a {
				continue
			}
			n++
			sl, ok := s.Val.(*ssa.Slice)
			if !ok {
				return false
			}
			ld, ok := sl.X.(*ssa.UnOp)
			if !ok || ld.X != a {
				return false
			}
		}
	}
	return n > 0
}

// onlyGrown: every store to cell a inside the loop stores append(<a's own value>, ...), a make, or a value that
// is not a slice — so a slice that was activation-fresh before the loop still is.
func (u *Unit) onlyGrown(fr *Frame, lc *LoopContract, a *ssa.Alloc) bool {
	if _, isSlice := a.Type().(*types.Pointer).Elem().Underlying().(*types.Slice); !isSlice {
		return true
	}
	for blk := range lc.body {
		for _, in := range blk.Instrs {
			s, ok := in.(*ssa.Store)
			if !ok || s.Addr != a {
				continue
			}
			switch v := s.Val.(type) {
			case *ssa.MakeSlice:
			case *ssa.Call:
				bi, ok := v.Common().Value.(*ssa.Builtin)
				if !ok || bi.Name() != "append" {
					return false
				}
				ld, ok := v.Common().Args[0].(*ssa.UnOp)
				if !ok || ld.X != a {
					return false
				}
			case *ssa.Slice:
				ld, ok := v.X.(*ssa.UnOp)
				if !ok || ld.X != a {
					return false
				}
			default:
				return false
			}
		}
	}
	return true
}

// loopCallsBack: does the loop body call through a function value?
func (u *Unit) loopCallsBack(lc *LoopContract) bool {
	for blk := range lc.body {
		for _, in := range blk.Instrs {
			if c, ok := in.(*ssa.Call); ok {
				cc := c.Common()
				if _, isB := cc.Value.(*ssa.Builtin); !isB && !cc.IsInvoke() && cc.StaticCallee() == nil {
					return true
				}
			}
		}
	}
	return false
}

// restoreKept: after the loop havoc, a `keeps` location holds an arbitrary re-slice of the array it held at loop
// entry (the back edge proves that the body never stores a different array there).
func (u *Unit) restoreKept(st *State, fr *Frame, b *ssa.BasicBlock, kc *Clause) bool {
	arg := kc.Expr.(*ast.CallExpr).Args[0]
	var path []int
	ex := arg
	for {
		if p, ok := ex.(*ast.ParenExpr); ok {
			ex = p.X
			continue
		}
		sel, ok := ex.(*ast.SelectorExpr)
		if !ok {
			break
		}
		s := kc.Info.Selections[sel]
		if s == nil || s.Kind() != types.FieldVal {
			return false
		}
		path = append(append([]int(nil), s.Index()...), path...)
		ex = sel.X
	}
	id, ok := ex.(*ast.Ident)
	if !ok {
		return false
	}
	env := u.invEnv(st, fr, b)
	cell, ok := env.cells[kc.Info.Uses[id].Pos()]
	if !ok {
		return false
	}
	p, ok := fr.regs[cell].(PtrV)
	if !ok {
		return false
	}
	snap := fr.loopSnap[b]
	was, ok := getPathSafe(snap.objs[p.Obj], path).(SliceV)
	if !ok || was.R == nil {
		return true
	}
	name := kc.Text
	off, ln, cp := Fresh(name+".off", SortInt), Fresh(name+".len", SortInt), Fresh(name+".cap", SortInt)
	st.assume(And(IntLe(was.Off, off), IntLe(IntK(0), ln), IntLe(ln, cp), Eq(IntAdd(off, cp), IntAdd(was.Off, was.Cap))))
	st.objs[p.Obj] = setPath(st.objs[p.Obj], path, SliceV{was.R, off, ln, cp})
	return true
}

func getPathSafe(v Value, path []int) (res Value) {
	defer func() {
		if recover() != nil {
			res = nil
		}
	}()
	return getPath(v, path)
}
