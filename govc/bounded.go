package main

// Bounded stand-in for functions outside the verifier's subset (reflection): a contract marked
//
//	//@   trusted
//	//@   bounded[Cxx] <generator>
//
// is assumed by the deductive engine at call sites (like any trusted contract) and, in addition, its requires /
// ensures clauses are compiled to Go and evaluated against the REAL function on inputs produced by the named
// generator (hand-written, /verif/bounded/generators.go, injected into package rtcp through -overlay). The
// result is reported separately as "bounded" — it is testing of a contract up to a stated bound, never a proof,
// and is never counted among the discharged obligations.

import (
	"context"
	"encoding/json"
	"fmt"
	"os"
	"os/exec"
	"path/filepath"
	"regexp"
	"strconv"
	"strings"
	"time"
)

type BoundedFail struct {
	Clause string `json:"clause"`
	Case   int    `json:"case"`
	Desc   string `json:"input"`
	Known  bool   `json:"known"`
}

type BoundedOutcome struct {
	Fn       string        `json:"function"`
	Gen      string        `json:"generator"`
	Idx      int           `json:"-"`
	Cases    int           `json:"cases_executed"`
	Skipped  int           `json:"cases_skipped_by_requires"`
	Clauses  []string      `json:"clauses_evaluated"`
	Unexec   []string      `json:"clauses_without_runtime_meaning"`
	Fails    []BoundedFail `json:"failures"`
	Bound    string        `json:"bound"`
	Finished bool          `json:"finished"`
}

func boundedContracts(eng *Engine, prop string) []*Contract {
	var out []*Contract
	for _, ct := range eng.order {
		if ct.Bounded != "" && (prop == "" || hasTag(ct.BoundedTags, prop)) {
			out = append(out, ct)
		}
	}
	return out
}

// extractOld replaces every old(E) / before(E) in s by a fresh variable and returns the definitions.
func extractOld(s string, olds *[]string) string {
	for {
		idx := -1
		for _, kw := range []string{"old(", "before("} {
			from := 0
			for {
				i := strings.Index(s[from:], kw)
				if i < 0 {
					break
				}
				i += from
				if i > 0 && (isIdentByte(s[i-1]) || s[i-1] == '.') {
					from = i + 1
					continue
				}
				if idx < 0 || i < idx {
					idx = i
				}
				break
			}
		}
		if idx < 0 {
			return s
		}
		open := strings.IndexByte(s[idx:], '(') + idx
		depth, end := 0, -1
		for j := open; j < len(s); j++ {
			if s[j] == '(' {
				depth++
			} else if s[j] == ')' {
				depth--
				if depth == 0 {
					end = j
					break
				}
			}
		}
		if end < 0 {
			return s
		}
		inner := s[open+1 : end]
		name := ""
		for k, o := range *olds {
			if o == inner {
				name = fmt.Sprintf("govcOld%d", k)
			}
		}
		if name == "" {
			*olds = append(*olds, inner)
			name = fmt.Sprintf("govcOld%d", len(*olds)-1)
		}
		s = s[:idx] + name + s[end+1:]
	}
}

func isIdentByte(c byte) bool {
	return c == '_' || (c >= '0' && c <= '9') || (c >= 'a' && c <= 'z') || (c >= 'A' && c <= 'Z')
}

// boundedClauseToGo: Go boolean expression for a clause, with old() lifted into olds.
func boundedClauseToGo(text string, olds *[]string) (string, bool) {
	body := strings.TrimSpace(text)
	if m := reLabel.FindStringSubmatch(body); m != nil && !strings.HasPrefix(body, "forall") {
		body = body[len(m[0]):]
	}
	var binders []string
	if m := reForall.FindStringSubmatch(body); m != nil {
		for _, b := range strings.Split(m[1], ",") {
			b = strings.TrimSpace(b)
			if strings.Contains(b, " ") { // typed binder: no run-time enumeration
				return "", false
			}
			binders = append(binders, b)
		}
		body = body[len(m[0]):]
	}
	for _, bad := range []string{"allocated(", "iter(", "unchanged(", "isFresh(", "ncalls(", "cbcalls(", "cbArg", "cbRet(", "traceBytes(", "exists ", "forall "} {
		if strings.Contains(body, bad) {
			return "", false
		}
	}
	body = extractOld(body, olds)
	g := rewriteLogic(body)
	for i := len(binders) - 1; i >= 0; i-- {
		g = "govcForall(func(" + binders[i] + " int) bool { return " + g + " })"
	}
	return g, true
}

var reBoundedLine = regexp.MustCompile(`^BOUNDED-(FAIL|KNOWN|DONE) idx=(\d+)(.*)$`)

// buildBoundedSource generates the test file for the given contracts.
func buildBoundedSource(cts []*Contract, findings []Finding) (string, []*BoundedOutcome) {
	var b strings.Builder
	b.WriteString("//go:build verif\n\npackage rtcp\n\nimport (\n\t\"fmt\"\n\t\"math/rand\"\n\t\"os\"\n\t\"runtime\"\n\t\"strconv\"\n\t\"testing\"\n)\n\nvar _ runtime.MemStats\n\n")
	b.WriteString(`func govcEnvInt(name string, def int) int {
	if s := os.Getenv(name); s != "" {
		if v, err := strconv.Atoi(s); err == nil {
			return v
		}
	}
	return def
}

// govcForall: every index that can address a value of the bounded generators (lists of at most a few hundred
// elements, buffers of at most 4096 octets).
func govcForall(f func(int) bool) bool {
	for k := -2; k <= 4100*govcScale; k++ {
		if !f(k) {
			return false
		}
	}
	return true
}

var govcReported = map[string]int{}

func govcReport(kind string, idx int, clause string, i int, desc string) {
	key := fmt.Sprintf("%s/%d/%s", kind, idx, clause)
	govcReported[key]++
	if govcReported[key] > 3 {
		return
	}
	fmt.Printf("BOUNDED-%s idx=%d clause=%s case=%d :: %s\n", kind, idx, clause, i, desc)
}

`)
	var outs []*BoundedOutcome
	for k, ct := range cts {
		o := &BoundedOutcome{Fn: ct.Key, Gen: ct.Bounded, Idx: k}
		outs = append(outs, o)
		fn := ct.Fn
		isMethod := fn.Signature.Recv() != nil
		params := append([]string(nil), ct.ParamNames...)
		for i, p := range params {
			if p == "" || p == "_" {
				params[i] = fmt.Sprintf("govcArg%d", i)
			}
		}
		var olds []string
		type cg struct{ label, code, known string }
		var reqs []string
		var ens []cg
		for _, cl := range ct.Requires {
			g, ok := boundedClauseToGo(cl.Text, &olds)
			if !ok {
				o.Unexec = append(o.Unexec, "requires "+cl.Label)
				continue
			}
			reqs = append(reqs, g)
		}
		for _, cl := range ct.Ensures {
			g, ok := boundedClauseToGo(cl.Text, &olds)
			if !ok {
				o.Unexec = append(o.Unexec, "ensures "+cl.Label)
				continue
			}
			known := ""
			for _, f := range findings {
				if f.Obligation == ct.Key+"#bounded:"+cl.Label && f.Predicate != "" {
					if known != "" {
						known += " || "
					}
					known += "(" + f.Predicate + ")"
				}
			}
			ens = append(ens, cg{cl.Label, g, known})
			o.Clauses = append(o.Clauses, cl.Label)
		}
		allocGo := ""
		if ct.AllocBound != nil {
			if g, ok := boundedClauseToGo(ct.AllocBound.Text, &olds); ok {
				allocGo = g
				o.Clauses = append(o.Clauses, "allocates (run-time bytes <= 64 x bound + 16 KiB)")
			}
		}
		fmt.Fprintf(&b, "func govcBounded%d(seed int64, n int, only int) {\n\tcases, skipped := 0, 0\n\tfor i := 0; i < n; i++ {\n\t\tif only >= 0 && i != only {\n\t\t\tcontinue\n\t\t}\n", k)
		b.WriteString("\t\trng := rand.New(rand.NewSource(seed*1000003 + int64(i)))\n")
		// everything from the generator call on runs under recover: generators call library code too
		b.WriteString("\t\tfunc() {\n\t\t\tdesc := \"(panic before the inputs were built: inside the generator, which calls the library)\"\n")
		b.WriteString("\t\t\tdefer func() {\n\t\t\t\tif r := recover(); r != nil {\n")
		fmt.Fprintf(&b, "\t\t\t\t\tgovcReport(\"FAIL\", %d, \"panic\", i, desc+\" :: panic: \"+fmt.Sprint(r))\n", k)
		b.WriteString("\t\t\t\t}\n\t\t\t}()\n")
		if len(params) > 0 {
			fmt.Fprintf(&b, "\t\t\t%s := %s(rng, i)\n", strings.Join(params, ", "), ct.Bounded)
			for _, p := range params {
				fmt.Fprintf(&b, "\t\t\t_ = %s\n", p)
			}
		}
		for _, r := range reqs {
			fmt.Fprintf(&b, "\t\t\tif !(%s) {\n\t\t\t\tskipped++\n\t\t\t\treturn\n\t\t\t}\n", r)
		}
		b.WriteString("\t\t\tcases++\n")
		fmt.Fprintf(&b, "\t\t\tdesc = govcDescribe(%s)\n", strings.Join(params, ", "))
		for j, e := range olds {
			fmt.Fprintf(&b, "\t\t\tgovcOld%d := %s\n\t\t\t_ = govcOld%d\n", j, e, j)
		}
		for j, e := range ens {
			if e.known != "" {
				fmt.Fprintf(&b, "\t\t\tgovcKnown%d := %s\n", j, e.known)
			} else {
				fmt.Fprintf(&b, "\t\t\tgovcKnown%d := false\n", j)
			}
			fmt.Fprintf(&b, "\t\t\t_ = govcKnown%d\n", j)
		}
		var args []string
		call := ""
		if isMethod {
			args = params[1:]
			call = params[0] + "." + fn.Name() + "(" + strings.Join(args, ", ") + ")"
		} else {
			call = fn.Name() + "(" + strings.Join(params, ", ") + ")"
		}
		if allocGo != "" {
			b.WriteString("\t\t\tvar govcM0, govcM1 runtime.MemStats\n\t\t\truntime.ReadMemStats(&govcM0)\n")
		}
		if len(ct.ResultNames) > 0 {
			fmt.Fprintf(&b, "\t\t\t%s := %s\n", strings.Join(ct.ResultNames, ", "), call)
			for _, r := range ct.ResultNames {
				fmt.Fprintf(&b, "\t\t\t_ = %s\n", r)
			}
		} else {
			fmt.Fprintf(&b, "\t\t\t%s\n", call)
		}
		if allocGo != "" {
			// the ghost allocation counter counts payload bytes; the run-time's real figure (headers, growth policy,
			// reflection temporaries) is allowed a factor 64 and 16 KiB on top — the check is against blow-up
			fmt.Fprintf(&b, "\t\t\truntime.ReadMemStats(&govcM1)\n\t\t\tif int64(govcM1.TotalAlloc-govcM0.TotalAlloc) > 64*int64(%s)+16384 {\n\t\t\t\tgovcReport(\"FAIL\", %d, \"allocates\", i, desc+fmt.Sprintf(\" :: %%d bytes allocated\", govcM1.TotalAlloc-govcM0.TotalAlloc))\n\t\t\t}\n", allocGo, k)
		}
		for j, e := range ens {
			fmt.Fprintf(&b, "\t\t\tif !(%s) {\n\t\t\t\tif govcKnown%d {\n\t\t\t\t\tgovcReport(\"KNOWN\", %d, %s, i, desc)\n\t\t\t\t} else {\n\t\t\t\t\tgovcReport(\"FAIL\", %d, %s, i, desc)\n\t\t\t\t}\n\t\t\t}\n",
				e.code, j, k, strconv.Quote(e.label), k, strconv.Quote(e.label))
		}
		b.WriteString("\t\t}()\n\t}\n")
		fmt.Fprintf(&b, "\tfmt.Printf(\"BOUNDED-DONE idx=%d cases=%%d skipped=%%d\\n\", cases, skipped)\n}\n\n", k)
	}
	b.WriteString("func TestGovcBounded(t *testing.T) {\n\tseed := int64(govcEnvInt(\"GOVC_BOUNDED_SEED\", 1))\n\tn := govcEnvInt(\"GOVC_BOUNDED_N\", 1000)\n\tonly := govcEnvInt(\"GOVC_BOUNDED_CASE\", -1)\n\twhich := govcEnvInt(\"GOVC_BOUNDED_IDX\", -1)\n")
	for k := range cts {
		fmt.Fprintf(&b, "\tif which < 0 || which == %d {\n\t\tgovcBounded%d(seed, n, only)\n\t}\n", k, k)
	}
	b.WriteString("}\n")
	return b.String(), outs
}

// runBoundedTest builds and runs the harness against opts.Repo.
func runBoundedTest(opts CheckOpts, src string, env []string, timeout time.Duration) (string, error) {
	gen, err := os.ReadFile(filepath.Join(opts.VerifDir, "bounded", "generators.go"))
	if err != nil {
		return "", err
	}
	dir := filepath.Join(workDirRoot, fmt.Sprintf("bounded%d", time.Now().UnixNano()))
	os.MkdirAll(dir, 0o755)
	defer os.RemoveAll(dir)
	f1 := filepath.Join(dir, "zz_govc_bounded_test.go")
	f2 := filepath.Join(dir, "zz_govc_generators_test.go")
	os.WriteFile(f1, []byte(src), 0o644)
	os.WriteFile(f2, gen, 0o644)
	ov := map[string]map[string]string{"Replace": {
		filepath.Join(opts.Repo, "zz_govc_bounded_test.go"):    f1,
		filepath.Join(opts.Repo, "zz_govc_generators_test.go"): f2,
	}}
	ob, _ := json.Marshal(ov)
	of := filepath.Join(dir, "overlay.json")
	os.WriteFile(of, ob, 0o644)
	ctx, cancel := context.WithTimeout(context.Background(), timeout+60*time.Second)
	defer cancel()
	cmd := exec.CommandContext(ctx, "sh", "-c", fmt.Sprintf("ulimit -v 8388608; exec go test -tags verif -overlay %s -vet=off -count=1 -timeout %ds -run '^TestGovcBounded$' -v .", of, int(timeout.Seconds())))
	cmd.Dir = opts.Repo
	cmd.Env = append(append(os.Environ(), "GOFLAGS=-mod=mod", "GOPROXY=off", "GOSUMDB=off", "GOTOOLCHAIN=local"), env...)
	out, err := cmd.CombinedOutput()
	return string(out), err
}

// RunBounded executes the bounded stand-ins relevant to opts.Prop. buildErr is non-empty if the harness did not
// compile or did not finish.
func RunBounded(eng *Engine, opts CheckOpts, findings []Finding) (outs []*BoundedOutcome, src string, buildErr string) {
	cts := boundedContracts(eng, opts.Prop)
	if opts.Only != "" {
		var f []*Contract
		for _, ct := range cts {
			if ct.Key == opts.Only {
				f = append(f, ct)
			}
		}
		cts = f
	}
	if len(cts) == 0 {
		return nil, "", ""
	}
	n, timeout, scale := 3000, 240*time.Second, 1
	if opts.Tier == "thorough" {
		n, timeout, scale = 200000, 2400*time.Second, 4
	}
	if s := os.Getenv("GOVC_BOUNDED_N"); s != "" {
		fmt.Sscanf(s, "%d", &n)
	}
	seed := opts.Seed
	if seed == 0 {
		seed = 1
	}
	src, outs = buildBoundedSource(cts, findings)
	out, _ := runBoundedTest(opts, src, []string{fmt.Sprintf("GOVC_BOUNDED_SEED=%d", seed), fmt.Sprintf("GOVC_BOUNDED_N=%d", n), fmt.Sprintf("GOVC_BOUNDED_SCALE=%d", scale)}, timeout)
	for _, line := range strings.Split(out, "\n") {
		m := reBoundedLine.FindStringSubmatch(strings.TrimSpace(line))
		if m == nil {
			continue
		}
		idx, _ := strconv.Atoi(m[2])
		if idx >= len(outs) {
			continue
		}
		o := outs[idx]
		switch m[1] {
		case "DONE":
			fmt.Sscanf(strings.TrimSpace(m[3]), "cases=%d skipped=%d", &o.Cases, &o.Skipped)
			o.Finished = true
		default:
			var f BoundedFail
			rest := strings.TrimSpace(m[3])
			head, desc, _ := strings.Cut(rest, " :: ")
			for _, kv := range strings.Fields(head) {
				if v, ok := strings.CutPrefix(kv, "clause="); ok {
					f.Clause = v
				}
				if v, ok := strings.CutPrefix(kv, "case="); ok {
					f.Case, _ = strconv.Atoi(v)
				}
			}
			f.Desc = desc
			f.Known = m[1] == "KNOWN"
			o.Fails = append(o.Fails, f)
		}
	}
	for _, o := range outs {
		o.Bound = fmt.Sprintf("%d generated cases (seed %d) from generator %s with size scale %d (see the header of bounded/generators.go); quantified indices enumerated over [-2,%d]", n, seed, o.Gen, scale, 4100*scale)
		if !o.Finished {
			tail := out
			if len(tail) > 1500 {
				tail = tail[len(tail)-1500:]
			}
			buildErr = "bounded harness did not finish for " + o.Fn + ":\n" + tail
		}
	}
	return outs, src, buildErr
}
