#!/bin/sh
# try_seed.sh <seed-dir> <props...>: applies the seed to a scratch copy of /repo HEAD and runs the given checks.
cd "$(dirname "$0")/.."; V=$(pwd); d="$1"; shift
export GOFLAGS=-mod=mod GOPROXY=off GOSUMDB=off GOTOOLCHAIN=local
S=$(mktemp -d /tmp/govc-scratch.XXXXXX); O=$(mktemp -d /tmp/govc-out.XXXXXX)
git -C /repo archive HEAD | tar -x -C "$S"; cp "$V/known_findings.json" "$O/"; cp -r "$V/known" "$V/bounded" "$O/"
(cd "$S" && git apply "$V/$d/patch.diff") || { echo PATCH-DOES-NOT-APPLY; rm -rf "$S" "$O"; exit 2; }
for p in "$@"; do "$V/bin/govc" check --property "$p" --tier quick --repo "$S" --verif "$O" 2>&1 | grep '^VIOLATION\|^govc: prop' | sed 's/replay=[^ ]* //' | cut -c1-220; done
rm -rf "$S" "$O"
